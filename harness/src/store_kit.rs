//! Harness-owned attribute / update / metric / notifier types with non-trivial status,
//! compatibility, merge and optimise logic and a shared fault controller, plus the sequential
//! reference model of a track and of the track store (written from the statements of
//! C09/C10/C11, independent of `similari::track` / `similari::store`).

use anyhow::{anyhow, Result};
use serde::{Deserialize, Serialize};
use similari::track::notify::ChangeNotifier;
use similari::track::{
    Feature, LookupRequest, MetricOutput, MetricQuery, Observation, ObservationAttributes, ObservationMetric, ObservationsDb, Track, TrackAttributes,
    TrackAttributesUpdate, TrackStatus,
};
use std::collections::BTreeMap;
use std::sync::atomic::{AtomicI64, AtomicU32, Ordering};
use std::sync::Arc;

// ---------------------------------------------------------------------------------------------
// fault controller

#[derive(Debug, Default)]
pub struct Ctl {
    pub counter: AtomicU32,
    /// callback invocation number (0-based) that must fail; -1 = none
    pub fail_at: AtomicI64,
    /// optimise calls take this many microseconds (widens the window of in-flight merges)
    pub slow_us: AtomicU32,
    /// every pair metric evaluation takes this many microseconds (workers hold their shard longer)
    pub slow_metric_us: AtomicU32,
    /// copying a track's metric takes this many microseconds (a track being copied by the library
    /// stays in whatever place the library put it for that long)
    pub slow_clone_us: AtomicU32,
}

impl Ctl {
    pub fn new() -> Arc<Self> {
        Arc::new(Ctl { counter: AtomicU32::new(0), fail_at: AtomicI64::new(-1), slow_us: AtomicU32::new(0), slow_metric_us: AtomicU32::new(0), slow_clone_us: AtomicU32::new(0) })
    }
    pub fn reset(&self, fail_at: i64) {
        self.counter.store(0, Ordering::SeqCst);
        self.fail_at.store(fail_at, Ordering::SeqCst);
    }
    pub fn count(&self) -> u32 {
        self.counter.load(Ordering::SeqCst)
    }
    pub fn tick(&self, what: &str) -> Result<()> {
        let n = self.counter.fetch_add(1, Ordering::SeqCst) as i64;
        if n == self.fail_at.load(Ordering::SeqCst) {
            Err(anyhow!("injected fault at callback {} ({})", n, what))
        } else {
            Ok(())
        }
    }
}

// ---------------------------------------------------------------------------------------------
// observation attributes

#[derive(Clone, Debug, PartialEq)]
pub struct HO(pub i32);

impl ObservationAttributes for HO {
    type MetricObject = i64;
    fn calculate_metric_object(l: &Option<&Self>, r: &Option<&Self>) -> Option<i64> {
        match (l, r) {
            (Some(l), Some(r)) => Some((l.0 - r.0) as i64),
            _ => None,
        }
    }
}

// ---------------------------------------------------------------------------------------------
// track attributes

#[derive(Clone, Debug)]
pub struct HA {
    /// status by value: val mod 4 = 0 Pending, 1 Ready, 2 Wasted, 3 error
    pub val: i64,
    /// tracks are compatible when their groups are equal
    pub group: u8,
    pub updates: u32,
    pub merges: u32,
    pub optimized: u32,
    /// what the last optimise call saw
    pub seen_metric_calls: u32,
    pub seen_history_len: usize,
    pub seen_prev_length: usize,
    /// the value the attributes had when optimise last ran (an attribute update that comes with
    /// an observation is applied before the observation is stored and optimised)
    pub seen_val: i64,
    /// merging *from* a track with this flag fails
    pub poison: bool,
    pub ctl: Arc<Ctl>,
}

impl HA {
    pub fn new(ctl: Arc<Ctl>) -> Self {
        HA { val: 0, group: 0, updates: 0, merges: 0, optimized: 0, seen_metric_calls: 0, seen_history_len: 0, seen_prev_length: 0, seen_val: 0, poison: false, ctl }
    }
    pub fn key(&self) -> (i64, u8, u32, u32, u32, u32, usize, usize, bool, i64) {
        (self.val, self.group, self.updates, self.merges, self.optimized, self.seen_metric_calls, self.seen_history_len, self.seen_prev_length, self.poison, self.seen_val)
    }
    /// status from the value and from the observations collected so far: a track whose value
    /// says Ready is still Pending while it has no observation at all
    pub fn status(&self, nobs: usize) -> std::result::Result<&'static str, ()> {
        match self.val.rem_euclid(4) {
            0 => Ok("pending"),
            1 => Ok(if nobs == 0 { "pending" } else { "ready" }),
            2 => Ok("wasted"),
            _ => Err(()),
        }
    }
}

#[derive(Clone, Debug, Serialize, Deserialize, PartialEq)]
pub enum HU {
    Set(i64),
    Add(i64),
    Group(u8),
    Poison(bool),
    /// always fails
    Fail,
}

impl TrackAttributesUpdate<HA> for HU {
    fn apply(&self, a: &mut HA) -> Result<()> {
        a.ctl.tick("update.apply")?;
        match self {
            HU::Set(v) => a.val = *v,
            HU::Add(d) => a.val += *d,
            HU::Group(g) => a.group = *g,
            HU::Poison(p) => a.poison = *p,
            HU::Fail => {
                // leaves a half-applied change behind: atomicity must undo it
                a.val += 1000;
                return Err(anyhow!("update refuses"));
            }
        }
        a.updates += 1;
        Ok(())
    }
}

#[derive(Clone, Debug, Serialize, Deserialize)]
pub enum HL {
    All,
    ValAtLeast(i64),
    Group(u8),
    HasClass(u64),
    HistoryLonger(usize),
}

impl LookupRequest<HA, HO> for HL {
    fn lookup(&self, a: &HA, obs: &ObservationsDb<HO>, history: &[u64]) -> bool {
        match self {
            HL::All => true,
            HL::ValAtLeast(v) => a.val >= *v,
            HL::Group(g) => a.group == *g,
            HL::HasClass(c) => obs.contains_key(c),
            HL::HistoryLonger(n) => history.len() > *n,
        }
    }
}

impl TrackAttributes<HA, HO> for HA {
    type Update = HU;
    type Lookup = HL;

    fn compatible(&self, other: &HA) -> bool {
        self.group == other.group
    }

    fn merge(&mut self, other: &HA) -> Result<()> {
        self.ctl.tick("attributes.merge")?;
        // half-applied change first: atomicity must undo it on failure
        self.val += other.val;
        if other.poison {
            return Err(anyhow!("merge refuses a poisoned source"));
        }
        self.merges += 1;
        Ok(())
    }

    fn baked(&self, obs: &ObservationsDb<HO>) -> Result<TrackStatus> {
        let nobs: usize = obs.values().map(|v| v.len()).sum();
        match self.val.rem_euclid(4) {
            0 => Ok(TrackStatus::Pending),
            1 => Ok(if nobs == 0 { TrackStatus::Pending } else { TrackStatus::Ready }),
            2 => Ok(TrackStatus::Wasted),
            _ => Err(anyhow!("status error for val {}", self.val)),
        }
    }
}

// ---------------------------------------------------------------------------------------------
// metric

pub const MAX_OBS: usize = 4;

#[derive(Debug)]
pub struct HM {
    pub calls: u32,
    pub ctl: Arc<Ctl>,
}

impl Clone for HM {
    fn clone(&self) -> Self {
        let us = self.ctl.slow_clone_us.load(Ordering::Relaxed);
        if us > 0 {
            std::thread::sleep(std::time::Duration::from_micros(us as u64));
        }
        HM { calls: self.calls, ctl: self.ctl.clone() }
    }
}

impl HM {
    pub fn new(ctl: Arc<Ctl>) -> Self {
        HM { calls: 0, ctl }
    }
}

pub fn feat(v: i32) -> Feature {
    use similari::track::utils::FromVec;
    Feature::from_vec(vec![v as f32, 1.0])
}

pub fn feat_val(f: &Feature) -> f32 {
    f[0].as_array_ref()[0]
}

/// the pure pair metric (used by the implementation under test through `HM::metric` and by
/// the reference model directly)
pub fn pair_metric(cand_calls: u32, cand_attr_val: i64, track_attr_val: i64, c: (&Option<HO>, Option<f32>), t: (&Option<HO>, Option<f32>)) -> MetricOutput<i64> {
    let cv = c.0.as_ref().map(|x| x.0).unwrap_or(-1);
    let tv = t.0.as_ref().map(|x| x.0).unwrap_or(-1);
    if (cv + tv).rem_euclid(7) == 0 {
        return None; // no value for this pair
    }
    let attr = HO::calculate_metric_object(&c.0.as_ref(), &t.0.as_ref()).map(|d| d * 1_000_000 + cand_calls as i64 * 10_000 + (cand_attr_val.rem_euclid(10)) * 100 + track_attr_val.rem_euclid(10));
    let fd = match (c.1, t.1) {
        (Some(a), Some(b)) => Some((a - b).abs()),
        _ => None,
    };
    Some((attr, fd))
}

/// results of one (candidate, stored track) pair that survive the metric's post-processing
pub const POST_KEEP: usize = 5;

/// the post-processing rule of the harness metric, on model tuples: of the results of one track
/// pair keep the POST_KEEP closest (a rule that is NOT element-wise: applied to anything but one
/// track pair at a time it gives a different multiset)
pub fn post_keep(mut v: Vec<(u64, u64, Option<i64>, Option<f32>)>) -> Vec<(u64, u64, Option<i64>, Option<f32>)> {
    if v.len() > POST_KEEP {
        v.sort_by(|a, b| (a.3.map(|x| x as f64).unwrap_or(f64::MAX), a.2.unwrap_or(i64::MAX)).partial_cmp(&(b.3.map(|x| x as f64).unwrap_or(f64::MAX), b.2.unwrap_or(i64::MAX))).unwrap());
        v.truncate(POST_KEEP);
    }
    v
}

impl ObservationMetric<HA, HO> for HM {
    fn postprocess_distances(&self, unfiltered: Vec<similari::track::ObservationMetricOk<HO>>) -> Vec<similari::track::ObservationMetricOk<HO>> {
        let mut v = unfiltered;
        if v.len() > POST_KEEP {
            v.sort_by(|a, b| (a.feature_distance.map(|x| x as f64).unwrap_or(f64::MAX), a.attribute_metric.unwrap_or(i64::MAX)).partial_cmp(&(b.feature_distance.map(|x| x as f64).unwrap_or(f64::MAX), b.attribute_metric.unwrap_or(i64::MAX))).unwrap());
            v.truncate(POST_KEEP);
        }
        v
    }

    fn metric(&self, mq: &MetricQuery<'_, HA, HO>) -> MetricOutput<i64> {
        let slow = self.ctl.slow_metric_us.load(Ordering::Relaxed);
        if slow > 0 {
            std::thread::sleep(std::time::Duration::from_micros(slow as u64));
        }
        pair_metric(
            self.calls,
            mq.candidate_attrs.val,
            mq.track_attrs.val,
            (mq.candidate_observation.attr(), mq.candidate_observation.feature().as_ref().map(feat_val)),
            (mq.track_observation.attr(), mq.track_observation.feature().as_ref().map(feat_val)),
        )
    }

    fn optimize(&mut self, _class: u64, history: &[u64], attrs: &mut HA, obs: &mut Vec<Observation<HO>>, prev_length: usize, _is_merge: bool) -> Result<()> {
        // half-applied changes first: atomicity must undo all of them on failure
        attrs.seen_metric_calls = self.calls;
        attrs.seen_history_len = history.len();
        attrs.seen_prev_length = prev_length;
        attrs.seen_val = attrs.val;
        self.calls += 1;
        attrs.optimized += 1;
        obs.sort_by_key(|o| std::cmp::Reverse(o.attr().as_ref().map(|x| x.0).unwrap_or(i32::MIN)));
        obs.truncate(MAX_OBS);
        let slow = self.ctl.slow_us.load(Ordering::Relaxed);
        if slow > 0 {
            std::thread::sleep(std::time::Duration::from_micros(slow as u64));
        }
        self.ctl.tick("metric.optimize")?;
        if obs.iter().any(|o| o.attr().as_ref().map(|x| x.0 == 666).unwrap_or(false)) {
            return Err(anyhow!("optimise refuses observation 666"));
        }
        // a refusal that depends on the combination: 10 and 11 can each be stored, a class that
        // would hold both is refused - so a merge of two storable tracks can fail in the optimise
        // step of one class (and succeed for the others)
        let has = |v: i32| obs.iter().any(|o| o.attr().as_ref().map(|x| x.0 == v).unwrap_or(false));
        if has(10) && has(11) {
            return Err(anyhow!("optimise refuses 10 together with 11"));
        }
        Ok(())
    }
}

// ---------------------------------------------------------------------------------------------
// notifier

#[derive(Clone, Debug)]
pub struct HN {
    pub count: Arc<AtomicU32>,
}

impl HN {
    pub fn new() -> Self {
        HN { count: Arc::new(AtomicU32::new(0)) }
    }
    pub fn get(&self) -> u32 {
        self.count.load(Ordering::SeqCst)
    }
}

impl ChangeNotifier for HN {
    fn send(&mut self, _id: u64) {
        self.count.fetch_add(1, Ordering::SeqCst);
    }
}

pub type HTrack = Track<HA, HM, HO, HN>;
pub type HStore = similari::store::TrackStore<HA, HM, HO, HN>;

// ---------------------------------------------------------------------------------------------
// observable state of a track

pub type ObsKey = (Option<i32>, Option<i32>);

#[derive(Clone, Debug, PartialEq, Serialize)]
pub struct Snap {
    pub id: u64,
    pub attrs: (i64, u8, u32, u32, u32, u32, usize, usize, bool, i64),
    pub obs: BTreeMap<u64, Vec<ObsKey>>,
    pub history: Vec<u64>,
    /// metric state, probed through a follow-up optimise call on a clone
    pub metric_calls: u32,
}

fn obs_key(o: &Observation<HO>) -> ObsKey {
    (o.attr().as_ref().map(|x| x.0), o.feature().as_ref().map(|f| feat_val(f) as i32))
}

/// Snapshot of a real track through its public getters; the metric state is probed by running
/// one more (fault-free) observation through a clone and reading what optimise saw.
pub fn snap_track(t: &HTrack) -> Snap {
    let a = t.get_attributes();
    let ctl = a.ctl.clone();
    let (saved_counter, saved_fail) = (ctl.counter.load(Ordering::SeqCst), ctl.fail_at.load(Ordering::SeqCst));
    ctl.fail_at.store(-1, Ordering::SeqCst);
    let mut probe = t.clone();
    let metric_calls = match probe.add_observation(987_654, Some(HO(1)), None, None) {
        Ok(()) => probe.get_attributes().seen_metric_calls,
        Err(_) => u32::MAX,
    };
    ctl.counter.store(saved_counter, Ordering::SeqCst);
    ctl.fail_at.store(saved_fail, Ordering::SeqCst);
    let mut obs = BTreeMap::new();
    for c in t.get_feature_classes() {
        if let Some(v) = t.get_observations(c) {
            obs.insert(c, v.iter().map(obs_key).collect());
        }
    }
    Snap { id: t.get_track_id(), attrs: a.key(), obs, history: t.get_merge_history().clone(), metric_calls }
}

// ---------------------------------------------------------------------------------------------
// reference model of a track

#[derive(Clone)]
pub struct MTrack {
    pub id: u64,
    pub attrs: HA,
    pub metric: HM,
    pub obs: BTreeMap<u64, Vec<Observation<HO>>>,
    pub history: Vec<u64>,
}

impl MTrack {
    pub fn new(id: u64, attrs: HA, metric: HM) -> Self {
        MTrack { id, attrs, metric, obs: BTreeMap::new(), history: vec![id] }
    }

    pub fn snap(&self) -> Snap {
        Snap {
            id: self.id,
            attrs: self.attrs.key(),
            obs: self.obs.iter().map(|(c, v)| (*c, v.iter().map(obs_key).collect())).collect(),
            history: self.history.clone(),
            metric_calls: self.metric.calls,
        }
    }

    /// "either succeeds completely or leaves the track exactly as it was"; returns the number of
    /// change notifications (1 on success, 0 on failure)
    pub fn add_observation(&mut self, class: u64, oa: Option<HO>, feature: Option<Feature>, upd: Option<HU>) -> (Result<()>, u32) {
        let backup = self.clone();
        if let Some(u) = &upd {
            if let Err(e) = u.apply(&mut self.attrs) {
                *self = backup;
                return (Err(e), 0);
            }
        }
        if oa.is_none() && feature.is_none() {
            return (Ok(()), 1);
        }
        let v = self.obs.entry(class).or_default();
        v.push(Observation::new(oa, feature));
        let prev = v.len() - 1;
        let history = self.history.clone();
        match self.metric.optimize(class, &history, &mut self.attrs, v, prev, false) {
            Ok(()) => (Ok(()), 1),
            Err(e) => {
                *self = backup;
                (Err(e), 0)
            }
        }
    }

    /// merge of `other` into self over `classes` (no duplicates in `classes`)
    pub fn merge(&mut self, other: &MTrack, classes: &[u64], with_history: bool) -> (Result<()>, u32) {
        let backup = self.clone();
        if let Err(e) = self.attrs.merge(&other.attrs) {
            *self = backup;
            return (Err(e), 0);
        }
        let any_present = classes.iter().any(|c| self.obs.contains_key(c) || other.obs.contains_key(c));
        let new_history: Vec<u64> = if with_history && any_present { self.history.iter().chain(other.history.iter()).cloned().collect() } else { self.history.clone() };
        for c in classes {
            let prev = match (self.obs.get(c), other.obs.get(c)) {
                (None, None) => continue,
                (Some(d), _) => d.len(),
                (None, Some(_)) => 0,
            };
            if let Some(src) = other.obs.get(c) {
                self.obs.entry(*c).or_default().extend(src.iter().cloned());
            }
            let v = self.obs.get_mut(c).unwrap();
            if let Err(e) = self.metric.optimize(*c, &new_history, &mut self.attrs, v, prev, true) {
                *self = backup;
                return (Err(e), 0);
            }
        }
        self.history = new_history;
        (Ok(()), 1)
    }

    pub fn classes(&self) -> Vec<u64> {
        self.obs.keys().cloned().collect()
    }

    pub fn nobs(&self) -> usize {
        self.obs.values().map(|v| v.len()).sum()
    }

    pub fn status(&self) -> std::result::Result<&'static str, ()> {
        self.attrs.status(self.nobs())
    }

    /// reference for Track::distances: Err(true) = incompatible, Err(false) = class missing
    pub fn distances(&self, other: &MTrack, class: u64) -> std::result::Result<Vec<(u64, u64, Option<i64>, Option<f32>)>, bool> {
        if !self.attrs.compatible(&other.attrs) {
            return Err(true);
        }
        match (self.obs.get(&class), other.obs.get(&class)) {
            (Some(l), Some(r)) => {
                let mut out = vec![];
                for a in l {
                    for b in r {
                        if let Some((am, fd)) = pair_metric(self.metric.calls, self.attrs.val, other.attrs.val, (a.attr(), a.feature().as_ref().map(feat_val)), (b.attr(), b.feature().as_ref().map(feat_val))) {
                            out.push((self.id, other.id, am, fd));
                        }
                    }
                }
                Ok(out)
            }
            _ => Err(false),
        }
    }
}

/// Builds the same track for the implementation and for the model from a description.
#[derive(Clone, Debug, Serialize, Deserialize)]
pub struct TrackDesc {
    pub id: u64,
    pub val: i64,
    pub group: u8,
    pub poison: bool,
    /// (class, attribute, feature)
    pub obs: Vec<(u64, Option<i32>, Option<i32>)>,
    /// the track is re-identified after construction (`set_track_id`): its id changes, its merge
    /// history keeps the id it was created with
    #[serde(default)]
    pub reid: Option<u64>,
}

pub fn build_both(d: &TrackDesc, ctl: &Arc<Ctl>, notifier: &HN) -> (HTrack, MTrack) {
    let mut attrs = HA::new(ctl.clone());
    attrs.val = d.val;
    attrs.group = d.group;
    attrs.poison = d.poison;
    let metric = HM::new(ctl.clone());
    let mut t = Track::new(d.id, metric.clone(), attrs.clone(), notifier.clone());
    let mut m = MTrack::new(d.id, attrs, metric);
    for (c, a, f) in &d.obs {
        // observations that optimise refuses (666) are skipped on both sides
        let r1 = t.add_observation(*c, a.map(HO), f.map(feat), None);
        let (r2, _) = m.add_observation(*c, a.map(HO), f.map(feat), None);
        assert_eq!(r1.is_ok(), r2.is_ok(), "construction must agree");
    }
    if let Some(n) = d.reid {
        t.set_track_id(n);
        m.id = n;
    }
    (t, m)
}
