//! Coverage-guided tier (libFuzzer through cargo-fuzz, thorough runs only).
//!
//! The fuzzer's bytes are the random stream of the *same* proptest strategies that the generated
//! checks use (proptest's `PassThrough` RNG hands the input bytes out verbatim, zeros after the
//! end), and every input is judged by the *same* oracle function, so the semantic oracle sits
//! inside the target; coverage feedback from the library (built with sancov instrumentation)
//! steers the byte mutations towards inputs that reach new code in the library and the oracle.
//! A failing input is written as an ordinary JSON replay (`fail-fuzz-<hash>.json`) before the
//! process aborts, so that the reproducible unit is the decoded case, not the raw bytes.
//!
//! * `one_input`  - body of the fuzz target (`/verif/fuzz/fuzz_targets/props.rs`)
//! * `campaign`   - orchestration from the check binary: build, seed corpus, bounded runs, stats

use crate::core::*;
use crate::props::*;
use proptest::prelude::*;
use proptest::strategy::ValueTree;
use proptest::test_runner::{Config, RngAlgorithm, TestRng, TestRunner};
use serde_json::{json, Value};
use std::cell::RefCell;
use std::path::{Path, PathBuf};

type Outcome = Option<Result<CaseOk, (Fail, Value)>>;
type Runner = Box<dyn FnMut(&[u8]) -> Outcome>;

fn from_bytes<S: Strategy>(s: &S, data: &[u8]) -> Option<S::Value> {
    // (the fuzz build uses /verif/vendor/proptest, whose PassThrough stream continues
    // pseudo-randomly once the input is used up; stock proptest answers with zeros, on which
    // rand's rejection sampling spins for ever)
    let rng = TestRng::from_seed(RngAlgorithm::PassThrough, data);
    let mut runner = TestRunner::new_with_rng(Config { failure_persistence: None, ..Config::default() }, rng);
    s.new_tree(&mut runner).ok().map(|t| t.current())
}

fn mk<S, C>(sub: &'static str, s: S, check: fn(&C) -> CaseResult) -> Runner
where
    S: Strategy<Value = C> + 'static,
    C: serde::Serialize + 'static,
{
    Box::new(move |data| {
        let c = from_bytes(&s, data)?;
        Some(guard_case(sub, || check(&c)).map_err(|f| (f, serde_json::to_value(&c).unwrap_or(Value::Null))))
    })
}

/// (property, sub-check) pairs that have a fuzz target: pure-input checks whose oracle runs
/// in-process in microseconds and never blocks.
pub const TARGETS: &[(&str, &str)] = &[
    ("C02", "engine-random"),
    ("C05", "voting-order"),
    ("C07", "box-regular"),
    ("C07", "points"),
    ("C07", "cost"),
    ("C08", "pair"),
    ("C08", "rigid"),
    ("C08", "edited-boxes"),
    ("C09", "random"),
    ("C11", "faults"),
    ("C14", "lists"),
    ("C14", "exact-lists"),
    ("C16", "roundtrip"),
    ("C16", "distance"),
    ("C17", "streams"),
    ("C17", "hungarian"),
    ("C17", "visual-voting"),
    ("C19", "ltwh"),
    ("C19", "polygon"),
    ("C19", "edited-polygon"),
    ("C19", "equality"),
    ("C19", "equality-multi"),
    ("C19", "normalize"),
    ("C20", "big-tables"),
];

fn make(prop: &str, sub: &str) -> Option<Runner> {
    Some(match (prop, sub) {
        ("C02", "engine-random") => mk("engine-random", c02::random_matrix(), c02::check_matrix),
        ("C05", "voting-order") => mk("voting-order", c05::vote_case(), c05::check_vote),
        ("C07", "box-regular") => mk("box-regular", c07::box_seq(false), c07::check_box_seq),
        ("C07", "points") => mk("points", c07::point_seq(), c07::check_point_seq),
        ("C07", "cost") => mk("cost", c07::cost_case(), c07::check_cost),
        ("C08", "pair") => mk("pair", crate::gen::boxes::box_pair(), c08::check_pair),
        ("C08", "rigid") => mk("rigid", c08::rigid_case(), c08::check_rigid),
        ("C08", "edited-boxes") => mk("edited-boxes", c08::history_case(), c08::check_history),
        ("C09", "random") => mk("random", c09::seq_case(), c09::check_seq),
        ("C11", "faults") => mk("faults", c11::atom_case(), c11::check_atom),
        ("C14", "lists") => mk("lists", c14::nms_case(), c14::check_nms),
        ("C14", "exact-lists") => mk("exact-lists", c14::exact_case(), c14::check_nms),
        ("C16", "roundtrip") => mk(
            "roundtrip",
            (0usize..=130, any::<bool>()).prop_flat_map(|(n, raw)| if raw { c16::raw_len(n).boxed() } else { c16::vec_len(n).boxed() }).prop_map(|v| c16::RoundTrip { v }),
            c16::check_roundtrip,
        ),
        ("C16", "distance") => mk("distance", (0usize..=130, 0usize..=130, 0u8..3).prop_flat_map(|(la, lb, m)| c16::dist_case(la, if m == 0 { la } else { lb }, la)), c16::check_dist),
        ("C17", "streams") => mk("streams", c17::stream_case(), c17::check_stream),
        ("C17", "hungarian") => mk("hungarian", c02::random_matrix(), c02::check_matrix),
        ("C17", "visual-voting") => mk("visual-voting", c17::visual_stream(), c17::check_visual_stream),
        ("C19", "ltwh") => mk("ltwh", c19::ltwh_case(), c19::check_ltwh),
        ("C19", "polygon") => mk("polygon", c19::poly_case(), c19::check_poly),
        ("C19", "edited-polygon") => mk("edited-polygon", c19::edited_case(), c19::check_edited),
        ("C19", "equality") => mk("equality", c19::eq_case(), c19::check_eq),
        ("C19", "equality-multi") => mk("equality-multi", c19::eq_multi(), c19::check_eq_multi),
        ("C19", "normalize") => mk("normalize", c19::angle_case(), c19::check_angle),
        ("C20", "big-tables") => mk("big-tables", c20::big_tables(), c20::check_table),
        _ => return None,
    })
}

struct Session {
    prop: String,
    sub: String,
    run: Runner,
    known: Vec<KnownFinding>,
    verif_dir: PathBuf,
    stats_file: Option<PathBuf>,
    execs: u64,
    undecodable: u64,
    nontrivial: u64,
    known_excluded: u64,
    sample: Option<Value>,
}

thread_local! {
    static SESSION: RefCell<Option<Session>> = const { RefCell::new(None) };
}

impl Session {
    fn open() -> Session {
        install_panic_hook();
        let t = std::env::var("SV_FUZZ_TARGET").expect("SV_FUZZ_TARGET=<property>.<sub-check> is not set");
        let (prop, sub) = t.split_once('.').expect("SV_FUZZ_TARGET must be <property>.<sub-check>");
        let verif_dir = std::env::var("SV_VERIF_DIR").map(PathBuf::from).unwrap_or_else(|_| PathBuf::from("/verif"));
        let env = Env { prop: prop.to_string(), tier: Tier::Thorough, seed: 0, verif_dir: verif_dir.clone(), worker: None };
        Session {
            prop: prop.to_string(),
            sub: sub.to_string(),
            run: make(prop, sub).unwrap_or_else(|| panic!("no fuzz target {}", t)),
            known: load_known_findings(&env),
            verif_dir,
            stats_file: std::env::var("SV_FUZZ_STATS").ok().map(PathBuf::from),
            execs: 0,
            undecodable: 0,
            nontrivial: 0,
            known_excluded: 0,
            sample: None,
        }
    }

    fn flush(&self) {
        if let Some(p) = &self.stats_file {
            let _ = std::fs::write(p, json!({"execs": self.execs, "undecodable": self.undecodable, "nontrivial": self.nontrivial, "known_finding_excluded": self.known_excluded}).to_string());
        }
    }

    fn step(&mut self, data: &[u8]) {
        self.execs += 1;
        match (self.run)(data) {
            None => self.undecodable += 1,
            Some(Ok(ok)) => {
                if ok.nontrivial {
                    self.nontrivial += 1;
                }
            }
            Some(Err((f, case))) => {
                if self.known.iter().any(|k| k.property == self.prop && k.signature == f.signature) {
                    self.known_excluded += 1;
                } else {
                    self.flush();
                    let body = json!({"property": self.prop, "sub": self.sub, "signature": f.signature, "message": f.msg, "case": case, "found_by": "libfuzzer"});
                    let text = serde_json::to_string_pretty(&body).unwrap();
                    let dir = self.verif_dir.join("replays").join(&self.prop);
                    let _ = std::fs::create_dir_all(&dir);
                    let path = dir.join(format!("fail-fuzz-{}-{:016x}.json", self.sub, hash_bytes(text.as_bytes())));
                    let _ = std::fs::write(&path, text);
                    eprintln!("[sv-fuzz] {} / {}: {} :: {}", self.prop, self.sub, f.signature, f.msg);
                    eprintln!("SV-FUZZ-VIOLATION property={} replay={}", self.prop, path.display());
                    std::process::abort();
                }
            }
        }
        if self.execs % 8192 == 0 {
            self.flush();
        }
        let _ = &self.sample;
    }
}

/// Body of the libFuzzer target.
pub fn one_input(data: &[u8]) {
    SESSION.with(|s| {
        let mut s = s.borrow_mut();
        if s.is_none() {
            *s = Some(Session::open());
        }
        s.as_mut().unwrap().step(data);
    });
}

// ---------------------------------------------------------------------------------------------
// orchestration (called from the thorough tier of the check binary)

fn corpus_seed(dir: &Path, seed: u64, n: usize) {
    let _ = std::fs::create_dir_all(dir);
    let mut x = mix(seed, 0xf022);
    for i in 0..n {
        let len = 64 << (i % 6); // 64 .. 2048 bytes
        let mut buf = Vec::with_capacity(len);
        while buf.len() < len {
            x = mix(x, buf.len() as u64 + 1);
            buf.extend_from_slice(&x.to_le_bytes());
        }
        let _ = std::fs::write(dir.join(format!("seed-{:03}", i)), &buf);
    }
}

fn build(verif_dir: &Path) -> Result<PathBuf, String> {
    let target_dir = verif_dir.join("target").join("fuzz");
    let out = std::process::Command::new("cargo")
        .args(["+nightly", "fuzz", "build", "-O", "-s", "none", "--fuzz-dir"])
        .arg(verif_dir.join("fuzz"))
        .arg("--target-dir")
        .arg(&target_dir)
        .arg("props")
        .current_dir(verif_dir.join("fuzz"))
        .env("CARGO_NET_OFFLINE", "true")
        .env("RUSTFLAGS", "--cfg similari_verif -C target-cpu=x86-64-v3 --cap-lints allow")
        .output()
        .map_err(|e| format!("cannot start cargo fuzz: {}", e))?;
    if !out.status.success() {
        let e = String::from_utf8_lossy(&out.stderr);
        return Err(format!("cargo fuzz build failed: {}", e.chars().rev().take(1500).collect::<String>().chars().rev().collect::<String>()));
    }
    let bin = target_dir.join("x86_64-unknown-linux-gnu").join("release").join("props");
    if bin.exists() { Ok(bin) } else { Err(format!("fuzz binary not found at {}", bin.display())) }
}

/// Runs one bounded libFuzzer campaign (`runs` executions, fixed seed, fresh corpus) per fuzzable
/// sub-check of the property, all campaigns in parallel, and records their statistics in the
/// evidence. A campaign that cannot be built or started is reported as an assumption, never as a
/// violation; a violating input is recorded with its decoded replay.
pub fn campaign(env: &Env, rep: &Report, runs: u64) {
    let subs: Vec<&str> = TARGETS.iter().filter(|(p, _)| *p == env.prop).map(|(_, s)| *s).collect();
    if subs.is_empty() || rep.stopped() {
        return;
    }
    WATCHDOG_PAUSED.store(true, std::sync::atomic::Ordering::SeqCst);
    let bin = match build(&env.verif_dir) {
        Ok(b) => b,
        Err(e) => {
            rep.assume(&format!("coverage-guided tier not run: {}", e.lines().last().unwrap_or("")));
            eprintln!("[sv] fuzz tier unavailable: {}", e);
            WATCHDOG_PAUSED.store(false, std::sync::atomic::Ordering::SeqCst);
            return;
        }
    };
    let work = env.verif_dir.join("target").join("fuzz-work").join(&env.prop);
    let _ = std::fs::remove_dir_all(&work);
    let results: Vec<(String, Value, Option<(Fail, Value)>)> = std::thread::scope(|s| {
        let hs: Vec<_> = subs
            .iter()
            .map(|sub| {
                let bin = bin.clone();
                let work = work.join(sub);
                let sub = sub.to_string();
                s.spawn(move || {
                    let corpus = work.join("corpus");
                    corpus_seed(&corpus, mix(env.seed, hash_str(&sub)), 48);
                    let stats = work.join("stats.json");
                    let t0 = std::time::Instant::now();
                    // sequence-valued cases (a few hundred filter steps or store operations per
                    // input) cost about a millisecond each: a tenth of the executions
                    let runs = match (env.prop.as_str(), sub.as_str()) {
                        ("C07", "box-regular") | ("C07", "points") | ("C09", "random") | ("C11", "faults") => runs / 10,
                        _ => runs,
                    };
                    let out = std::process::Command::new(&bin)
                        .arg(format!("-runs={}", runs))
                        .arg("-max_total_time=1200")
                        .arg(format!("-seed={}", (mix(env.seed, hash_str(&sub)) % 0x7fff_fffe) + 1))
                        .args(["-len_control=0", "-max_len=4096", "-print_final_stats=1", "-timeout=120", "-rss_limit_mb=4096"])
                        .arg(format!("-artifact_prefix={}/", work.display()))
                        .arg(&corpus)
                        .current_dir(&work)
                        .env("SV_FUZZ_TARGET", format!("{}.{}", env.prop, sub))
                        .env("SV_VERIF_DIR", &env.verif_dir)
                        .env("SV_FUZZ_STATS", &stats)
                        .env("RUST_BACKTRACE", "0")
                        .output();
                    let wall = t0.elapsed().as_secs_f64();
                    let (code, err) = match out {
                        Ok(o) => (o.status.code(), String::from_utf8_lossy(&o.stderr).to_string()),
                        Err(e) => (Some(-1), format!("cannot start: {}", e)),
                    };
                    let num = |key: &str| -> Option<u64> { err.lines().rev().find(|l| l.starts_with(key)).and_then(|l| l.split_whitespace().last()).and_then(|v| v.parse().ok()) };
                    let cov = err.lines().rev().find_map(|l| l.split(" cov: ").nth(1).and_then(|r| r.split_whitespace().next()).and_then(|v| v.parse::<u64>().ok()));
                    let corp = err.lines().rev().find_map(|l| l.split(" corp: ").nth(1).and_then(|r| r.split('/').next()).and_then(|v| v.trim().parse::<u64>().ok()));
                    let st: Value = std::fs::read_to_string(&stats).ok().and_then(|t| serde_json::from_str(&t).ok()).unwrap_or(Value::Null);
                    let mut info = json!({"executions_requested": runs, "executions": num("stat::number_of_executed_units:"), "coverage_edges": cov, "corpus_units": corp, "new_units_added": num("stat::new_units_added:"), "wall_s": wall, "exit": code, "oracle_stats": st});
                    let viol = err.lines().find_map(|l| l.strip_prefix("SV-FUZZ-VIOLATION ")).and_then(|l| l.split("replay=").nth(1)).map(|p| PathBuf::from(p.trim()));
                    let mut found = None;
                    if let Some(p) = viol {
                        if let Ok(v) = std::fs::read_to_string(&p).map_err(|_| ()).and_then(|t| serde_json::from_str::<Value>(&t).map_err(|_| ())) {
                            found = Some((Fail::new(v["signature"].as_str().unwrap_or("?").to_string(), v["message"].as_str().unwrap_or("?").to_string()), v["case"].clone()));
                        }
                        let _ = std::fs::remove_file(&p); // re-written by record_violation under the usual name
                    } else if code != Some(0) {
                        // crash / timeout / OOM without an oracle verdict: inconclusive, never a violation
                        info["note"] = json!(format!("campaign ended abnormally: {}", err.lines().rev().take(3).collect::<Vec<_>>().join(" | ")));
                    }
                    (sub, info, found)
                })
            })
            .collect();
        hs.into_iter().map(|h| h.join().unwrap()).collect()
    });
    let mut all = serde_json::Map::new();
    for (sub, info, found) in results {
        if info.get("note").is_some() && found.is_none() {
            rep.mark_inconclusive(format!("fuzz campaign {}.{}: {}", env.prop, sub, info["note"]));
        }
        all.insert(sub.clone(), info);
        if let Some((f, case)) = found {
            rep.record_violation(&sub, f, case);
        }
    }
    WATCHDOG_PAUSED.store(false, std::sync::atomic::Ordering::SeqCst);
    rep.set_extra("libfuzzer_campaigns", Value::Object(all));
    rep.assume("coverage-guided tier: libFuzzer (cargo-fuzz, -s none, sancov edges of the library and the harness) feeds its bytes to the same proptest strategies through the PassThrough RNG and judges every input with the same oracle; -runs and -seed are fixed (a campaign also ends after 20 minutes; executions_requested vs executions shows when that happened), the corpus starts from 48 pseudo-random files derived from VERIF_SEED");
}
