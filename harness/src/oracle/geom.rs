//! Independent f64 geometry kernel: rectangles, convex clipping by half-planes with
//! parametric intersection, shoelace area, SAT gap, inclusion-exclusion, grid counting.
//! Shares no code and no formula with `similari::utils::clipping` or geo's boolean ops.

#[derive(Clone, Copy, Debug, PartialEq)]
pub struct P {
    pub x: f64,
    pub y: f64,
}

impl P {
    pub fn new(x: f64, y: f64) -> Self {
        P { x, y }
    }
    pub fn sub(self, o: P) -> P {
        P::new(self.x - o.x, self.y - o.y)
    }
    pub fn add(self, o: P) -> P {
        P::new(self.x + o.x, self.y + o.y)
    }
    pub fn scale(self, k: f64) -> P {
        P::new(self.x * k, self.y * k)
    }
    pub fn cross(self, o: P) -> f64 {
        self.x * o.y - self.y * o.x
    }
    pub fn dot(self, o: P) -> f64 {
        self.x * o.x + self.y * o.y
    }
    pub fn norm(self) -> f64 {
        self.dot(self).sqrt()
    }
}

/// Rectangle given by centre, rotation angle (radians, counter-clockwise), width and height.
#[derive(Clone, Copy, Debug, PartialEq)]
pub struct RBox {
    pub xc: f64,
    pub yc: f64,
    pub angle: f64,
    pub w: f64,
    pub h: f64,
}

impl RBox {
    /// From the library's (xc, yc, angle, aspect, height) parametrisation; inputs are the f32
    /// values the library sees, widened to f64.
    pub fn from_xyaah(xc: f32, yc: f32, angle: Option<f32>, aspect: f32, height: f32) -> Self {
        RBox {
            xc: xc as f64,
            yc: yc as f64,
            angle: angle.unwrap_or(0.0) as f64,
            w: aspect as f64 * height as f64,
            h: height as f64,
        }
    }

    pub fn area(&self) -> f64 {
        self.w * self.h
    }

    pub fn radius(&self) -> f64 {
        0.5 * (self.w * self.w + self.h * self.h).sqrt()
    }

    pub fn center(&self) -> P {
        P::new(self.xc, self.yc)
    }

    /// unit vectors along width and height
    pub fn axes(&self) -> (P, P) {
        let (s, c) = self.angle.sin_cos();
        (P::new(c, s), P::new(-s, c))
    }

    /// Vertices in counter-clockwise order relative to `origin`.
    pub fn vertices_rel(&self, origin: P) -> [P; 4] {
        let (u, v) = self.axes();
        let c = self.center().sub(origin);
        let hu = u.scale(self.w / 2.0);
        let hv = v.scale(self.h / 2.0);
        [
            c.sub(hu).sub(hv),
            c.add(hu).sub(hv),
            c.add(hu).add(hv),
            c.sub(hu).add(hv),
        ]
    }

    pub fn vertices(&self) -> [P; 4] {
        self.vertices_rel(P::new(0.0, 0.0))
    }

    pub fn contains(&self, p: P) -> bool {
        let (u, v) = self.axes();
        let d = p.sub(self.center());
        d.dot(u).abs() <= self.w / 2.0 && d.dot(v).abs() <= self.h / 2.0
    }
}

/// Signed shoelace area (positive for counter-clockwise polygons).
pub fn signed_area(pts: &[P]) -> f64 {
    let n = pts.len();
    if n < 3 {
        return 0.0;
    }
    let mut s = 0.0;
    for i in 0..n {
        let a = pts[i];
        let b = pts[(i + 1) % n];
        s += a.cross(b);
    }
    s / 2.0
}

pub fn poly_area(pts: &[P]) -> f64 {
    signed_area(pts).abs()
}

pub fn centroid(pts: &[P]) -> P {
    let a = signed_area(pts);
    let n = pts.len();
    let (mut cx, mut cy) = (0.0, 0.0);
    for i in 0..n {
        let p = pts[i];
        let q = pts[(i + 1) % n];
        let c = p.cross(q);
        cx += (p.x + q.x) * c;
        cy += (p.y + q.y) * c;
    }
    P::new(cx / (6.0 * a), cy / (6.0 * a))
}

/// Clips a convex polygon by the half-plane to the left of the directed line a->b.
fn clip_halfplane(poly: &[P], a: P, b: P) -> Vec<P> {
    let n = poly.len();
    let mut out = Vec::with_capacity(n + 2);
    if n == 0 {
        return out;
    }
    let dir = b.sub(a);
    let side = |p: P| dir.cross(p.sub(a));
    for i in 0..n {
        let p = poly[i];
        let q = poly[(i + 1) % n];
        let sp = side(p);
        let sq = side(q);
        if sp >= 0.0 {
            out.push(p);
        }
        if (sp > 0.0 && sq < 0.0) || (sp < 0.0 && sq > 0.0) {
            let t = sp / (sp - sq);
            out.push(p.add(q.sub(p).scale(t)));
        }
    }
    out
}

/// Intersection of a convex polygon with a counter-clockwise convex clip polygon.
pub fn convex_clip(subject: &[P], clip_ccw: &[P]) -> Vec<P> {
    let mut cur: Vec<P> = subject.to_vec();
    let m = clip_ccw.len();
    for i in 0..m {
        if cur.is_empty() {
            break;
        }
        cur = clip_halfplane(&cur, clip_ccw[i], clip_ccw[(i + 1) % m]);
    }
    cur
}

/// Area of the intersection of two rectangles (computed in coordinates local to `a`).
pub fn intersection_area(a: &RBox, b: &RBox) -> f64 {
    let o = a.center();
    let pa = a.vertices_rel(o);
    let pb = b.vertices_rel(o);
    poly_area(&convex_clip(&pa, &pb))
}

pub fn iou(a: &RBox, b: &RBox) -> f64 {
    let i = intersection_area(a, b);
    i / (a.area() + b.area() - i)
}

/// Separating-axis gap: > 0 when the rectangles are strictly separated by that distance along
/// one of the four edge normals, <= 0 (penetration depth, negated) when they overlap or touch.
pub fn sat_gap(a: &RBox, b: &RBox) -> f64 {
    let o = a.center();
    let pa = a.vertices_rel(o);
    let pb = b.vertices_rel(o);
    let (au, av) = a.axes();
    let (bu, bv) = b.axes();
    let mut best = f64::NEG_INFINITY;
    for ax in [au, av, bu, bv] {
        let (mut amin, mut amax) = (f64::INFINITY, f64::NEG_INFINITY);
        let (mut bmin, mut bmax) = (f64::INFINITY, f64::NEG_INFINITY);
        for p in pa {
            let d = p.dot(ax);
            amin = amin.min(d);
            amax = amax.max(d);
        }
        for p in pb {
            let d = p.dot(ax);
            bmin = bmin.min(d);
            bmax = bmax.max(d);
        }
        let gap = (bmin - amax).max(amin - bmax);
        best = best.max(gap);
    }
    best
}

/// Area of `boxes[i]` not covered by any other box, by inclusion-exclusion over the convex
/// intersections (depth-first, pruning empty intersections).
pub fn exclusive_area(boxes: &[RBox], i: usize) -> f64 {
    let o = boxes[i].center();
    let base: Vec<P> = boxes[i].vertices_rel(o).to_vec();
    let others: Vec<Vec<P>> = boxes
        .iter()
        .enumerate()
        .filter(|(j, _)| *j != i)
        .map(|(_, b)| b.vertices_rel(o).to_vec())
        .collect();
    fn rec(cur: &[P], others: &[Vec<P>], start: usize, sign: f64, acc: &mut f64) {
        for k in start..others.len() {
            let nxt = convex_clip(cur, &others[k]);
            let a = poly_area(&nxt);
            if a > 0.0 && nxt.len() >= 3 {
                *acc += sign * a;
                rec(&nxt, others, k + 1, -sign, acc);
            }
        }
    }
    let mut covered = 0.0;
    rec(&base, &others, 0, 1.0, &mut covered);
    (poly_area(&base) - covered).max(0.0)
}

/// Exact exclusive area for axis-aligned boxes with integer corners (l, t, w, h), by counting
/// unit cells.
pub fn exclusive_area_grid(boxes: &[(i32, i32, i32, i32)], i: usize) -> i64 {
    let (l, t, w, h) = boxes[i];
    let mut cnt = 0i64;
    for x in l..l + w {
        for y in t..t + h {
            let mut covered = false;
            for (j, (ol, ot, ow, oh)) in boxes.iter().enumerate() {
                if j != i && x >= *ol && x < ol + ow && y >= *ot && y < ot + oh {
                    covered = true;
                    break;
                }
            }
            if !covered {
                cnt += 1;
            }
        }
    }
    cnt
}

/// Monte-Carlo free cross-check used by the oracle's own self test: fraction of a regular
/// n x n sample lattice of box `i` that no other box covers.
pub fn exclusive_share_lattice(boxes: &[RBox], i: usize, n: usize) -> f64 {
    let b = boxes[i];
    let (u, v) = b.axes();
    let mut free = 0usize;
    for a in 0..n {
        for c in 0..n {
            let fu = ((a as f64 + 0.5) / n as f64 - 0.5) * b.w;
            let fv = ((c as f64 + 0.5) / n as f64 - 0.5) * b.h;
            let p = b.center().add(u.scale(fu)).add(v.scale(fv));
            if !boxes
                .iter()
                .enumerate()
                .any(|(j, o)| j != i && o.contains(p))
            {
                free += 1;
            }
        }
    }
    free as f64 / (n * n) as f64
}

#[cfg(test)]
mod tests {
    use super::*;
    #[test]
    fn unit_squares() {
        let a = RBox { xc: 0.0, yc: 0.0, angle: 0.0, w: 2.0, h: 2.0 };
        let b = RBox { xc: 1.0, yc: 1.0, angle: 0.0, w: 2.0, h: 2.0 };
        assert!((intersection_area(&a, &b) - 1.0).abs() < 1e-12);
        let c = RBox { xc: 0.0, yc: 0.0, angle: std::f64::consts::FRAC_PI_4, w: 2.0, h: 2.0 };
        // octagon: 8 * (sqrt2 - 1) ... area of square ∩ rotated square = 8(√2−1)
        assert!((intersection_area(&a, &c) - 8.0 * (2f64.sqrt() - 1.0)).abs() < 1e-9);
        assert!(sat_gap(&a, &b) < 0.0);
        let d = RBox { xc: 5.0, yc: 0.0, angle: 0.0, w: 2.0, h: 2.0 };
        assert!((sat_gap(&a, &d) - 3.0).abs() < 1e-12);
        let boxes = [a, b];
        assert!((exclusive_area(&boxes, 0) - 3.0).abs() < 1e-12);
    }
}
