pub mod geom;
