pub mod assign;
pub mod geom;
pub mod kalman;
