//! Dense f64 textbook constant-velocity Kalman filter (reference for C07 and for the
//! Mahalanobis shadow of C02/C12). Plain Vec-based linear algebra, Gauss-Jordan inverse;
//! no code shared with similari or nalgebra.

#[derive(Clone, Debug)]
pub struct KState {
    pub n: usize,
    /// 2n
    pub mean: Vec<f64>,
    /// (2n)x(2n) row-major
    pub cov: Vec<f64>,
}

impl KState {
    pub fn at(&self, i: usize, j: usize) -> f64 {
        self.cov[i * 2 * self.n + j]
    }
}

/// Noise model: given the current height estimate returns the per-component standard
/// deviations (position part, velocity part) for the three places noise enters.
pub trait NoiseModel {
    fn dim(&self) -> usize;
    fn init_std(&self, meas: &[f64]) -> (Vec<f64>, Vec<f64>);
    fn process_std(&self, mean: &[f64]) -> (Vec<f64>, Vec<f64>);
    fn measurement_std(&self, mean: &[f64]) -> Vec<f64>;
}

/// The library's documented model for boxes (xc, yc, angle, aspect, height): standard
/// deviations proportional to the height, except the aspect which has constant ones.
pub struct BoxNoise {
    pub wp: f64,
    pub wv: f64,
}

impl BoxNoise {
    fn pos(&self, k: f64, cnst: f64, h: f64) -> Vec<f64> {
        let p = k * self.wp * h;
        vec![p, p, p, cnst, p]
    }
    fn vel(&self, k: f64, cnst: f64, h: f64) -> Vec<f64> {
        let v = k * self.wv * h;
        vec![v, v, v, cnst, v]
    }
}

impl NoiseModel for BoxNoise {
    fn dim(&self) -> usize {
        5
    }
    fn init_std(&self, meas: &[f64]) -> (Vec<f64>, Vec<f64>) {
        (self.pos(2.0, 1e-2, meas[4]), self.vel(10.0, 1e-5, meas[4]))
    }
    fn process_std(&self, mean: &[f64]) -> (Vec<f64>, Vec<f64>) {
        (self.pos(1.0, 1e-2, mean[4]), self.vel(1.0, 1e-5, mean[4]))
    }
    fn measurement_std(&self, mean: &[f64]) -> Vec<f64> {
        self.pos(1.0, 1e-1, mean[4])
    }
}

/// The library's model for points: constant standard deviations.
pub struct PointNoise {
    pub wp: f64,
    pub wv: f64,
}

impl NoiseModel for PointNoise {
    fn dim(&self) -> usize {
        2
    }
    fn init_std(&self, _meas: &[f64]) -> (Vec<f64>, Vec<f64>) {
        (vec![2.0 * self.wp; 2], vec![10.0 * self.wv; 2])
    }
    fn process_std(&self, _mean: &[f64]) -> (Vec<f64>, Vec<f64>) {
        (vec![self.wp; 2], vec![self.wv; 2])
    }
    fn measurement_std(&self, _mean: &[f64]) -> Vec<f64> {
        vec![self.wp; 2]
    }
}

fn matmul(a: &[f64], b: &[f64], n: usize, m: usize, p: usize) -> Vec<f64> {
    // a: n x m, b: m x p
    let mut c = vec![0.0; n * p];
    for i in 0..n {
        for k in 0..m {
            let x = a[i * m + k];
            if x != 0.0 {
                for j in 0..p {
                    c[i * p + j] += x * b[k * p + j];
                }
            }
        }
    }
    c
}

fn transpose(a: &[f64], n: usize, m: usize) -> Vec<f64> {
    let mut t = vec![0.0; n * m];
    for i in 0..n {
        for j in 0..m {
            t[j * n + i] = a[i * m + j];
        }
    }
    t
}

/// Gauss-Jordan inverse with partial pivoting; None when singular.
pub fn inverse(a: &[f64], n: usize) -> Option<Vec<f64>> {
    let mut m = a.to_vec();
    let mut inv = vec![0.0; n * n];
    for i in 0..n {
        inv[i * n + i] = 1.0;
    }
    for col in 0..n {
        let mut piv = col;
        for r in col + 1..n {
            if m[r * n + col].abs() > m[piv * n + col].abs() {
                piv = r;
            }
        }
        if m[piv * n + col] == 0.0 {
            return None;
        }
        if piv != col {
            for j in 0..n {
                m.swap(col * n + j, piv * n + j);
                inv.swap(col * n + j, piv * n + j);
            }
        }
        let d = m[col * n + col];
        for j in 0..n {
            m[col * n + j] /= d;
            inv[col * n + j] /= d;
        }
        for r in 0..n {
            if r != col {
                let f = m[r * n + col];
                if f != 0.0 {
                    for j in 0..n {
                        m[r * n + j] -= f * m[col * n + j];
                        inv[r * n + j] -= f * inv[col * n + j];
                    }
                }
            }
        }
    }
    Some(inv)
}

/// Cholesky factorisation; returns the smallest pivot (<= 0 or NaN means not SPD).
pub fn cholesky_min_pivot(a: &[f64], n: usize) -> f64 {
    let mut l = vec![0.0; n * n];
    let mut minp = f64::INFINITY;
    for i in 0..n {
        for j in 0..=i {
            let mut s = a[i * n + j];
            for k in 0..j {
                s -= l[i * n + k] * l[j * n + k];
            }
            if i == j {
                minp = minp.min(s);
                if !(s > 0.0) {
                    return s;
                }
                l[i * n + i] = s.sqrt();
            } else {
                l[i * n + j] = s / l[j * n + j];
            }
        }
    }
    minp
}

pub struct RefFilter<M: NoiseModel> {
    pub model: M,
    pub dt: f64,
}

impl<M: NoiseModel> RefFilter<M> {
    pub fn new(model: M) -> Self {
        Self { model, dt: 1.0 }
    }

    fn f(&self) -> Vec<f64> {
        let n = self.model.dim();
        let d = 2 * n;
        let mut f = vec![0.0; d * d];
        for i in 0..d {
            f[i * d + i] = 1.0;
        }
        for i in 0..n {
            f[i * d + n + i] = self.dt;
        }
        f
    }

    fn h(&self) -> Vec<f64> {
        let n = self.model.dim();
        let d = 2 * n;
        let mut h = vec![0.0; n * d];
        for i in 0..n {
            h[i * d + i] = 1.0;
        }
        h
    }

    pub fn initiate(&self, meas: &[f64]) -> KState {
        let n = self.model.dim();
        let d = 2 * n;
        let mut mean = meas.to_vec();
        mean.extend(std::iter::repeat(0.0).take(n));
        let (sp, sv) = self.model.init_std(meas);
        let mut cov = vec![0.0; d * d];
        for i in 0..n {
            cov[i * d + i] = sp[i] * sp[i];
            cov[(n + i) * d + n + i] = sv[i] * sv[i];
        }
        KState { n, mean, cov }
    }

    pub fn predict(&self, s: &KState) -> KState {
        let n = s.n;
        let d = 2 * n;
        let f = self.f();
        let (sp, sv) = self.model.process_std(&s.mean);
        let mean = matmul(&f, &s.mean, d, d, 1);
        let fp = matmul(&f, &s.cov, d, d, d);
        let mut cov = matmul(&fp, &transpose(&f, d, d), d, d, d);
        for i in 0..n {
            cov[i * d + i] += sp[i] * sp[i];
            cov[(n + i) * d + n + i] += sv[i] * sv[i];
        }
        KState { n, mean, cov }
    }

    /// projected mean and innovation covariance S = H P H^T + R
    pub fn project(&self, s: &KState) -> (Vec<f64>, Vec<f64>) {
        let n = s.n;
        let d = 2 * n;
        let h = self.h();
        let r = self.model.measurement_std(&s.mean);
        let pm = matmul(&h, &s.mean, n, d, 1);
        let hp = matmul(&h, &s.cov, n, d, d);
        let mut sc = matmul(&hp, &transpose(&h, n, d), n, d, n);
        for i in 0..n {
            sc[i * n + i] += r[i] * r[i];
        }
        (pm, sc)
    }

    pub fn update(&self, s: &KState, z: &[f64]) -> KState {
        let n = s.n;
        let d = 2 * n;
        let h = self.h();
        let (pm, sc) = self.project(s);
        let sinv = inverse(&sc, n).expect("reference innovation covariance singular");
        let pht = matmul(&s.cov, &transpose(&h, n, d), d, d, n);
        let k = matmul(&pht, &sinv, d, n, n); // d x n
        let innov: Vec<f64> = (0..n).map(|i| z[i] - pm[i]).collect();
        let corr = matmul(&k, &innov, d, n, 1);
        let mean: Vec<f64> = (0..d).map(|i| s.mean[i] + corr[i]).collect();
        let ks = matmul(&k, &sc, d, n, n);
        let kskt = matmul(&ks, &transpose(&k, d, n), d, n, d);
        let cov: Vec<f64> = (0..d * d).map(|i| s.cov[i] - kskt[i]).collect();
        KState { n, mean, cov }
    }

    /// squared Mahalanobis distance of z from the projected state
    pub fn distance(&self, s: &KState, z: &[f64]) -> f64 {
        let n = s.n;
        let (pm, sc) = self.project(s);
        let sinv = inverse(&sc, n).expect("reference innovation covariance singular");
        let dv: Vec<f64> = (0..n).map(|i| z[i] - pm[i]).collect();
        let t = matmul(&sinv, &dv, n, n, 1);
        (0..n).map(|i| dv[i] * t[i]).sum()
    }
}

#[cfg(test)]
mod tests {
    use super::*;
    #[test]
    fn inverse_roundtrip() {
        let a = vec![4.0, 1.0, 1.0, 3.0];
        let inv = inverse(&a, 2).unwrap();
        let p = matmul(&a, &inv, 2, 2, 2);
        assert!((p[0] - 1.0).abs() < 1e-12 && p[1].abs() < 1e-12);
        assert!(cholesky_min_pivot(&a, 2) > 0.0);
        assert!(!(cholesky_min_pivot(&[1.0, 2.0, 2.0, 1.0], 2) > 0.0));
    }
}
