//! Maximum-weight one-to-one assignment with a per-row "stay unmatched" option, by DP over
//! column subsets (independent of pathfinding::kuhn_munkres).

/// `w[r][c]` = weight of pairing row r with column c (None = pair not available).
/// Every row may instead stay unmatched for `unmatched` weight.
/// Returns (optimal total, one optimal assignment).
pub fn solve(w: &[Vec<Option<f64>>], unmatched: f64) -> (f64, Vec<Option<usize>>) {
    let rows = w.len();
    let cols = w.first().map(|r| r.len()).unwrap_or(0);
    assert!(cols <= 20, "too many columns for the subset DP");
    let full = 1usize << cols;
    // best[r][mask] = best total for rows r.. given used columns mask
    let mut best = vec![vec![0.0f64; full]; rows + 1];
    let mut choice = vec![vec![usize::MAX; full]; rows];
    for r in (0..rows).rev() {
        for mask in 0..full {
            let mut b = unmatched + best[r + 1][mask];
            let mut ch = usize::MAX;
            for c in 0..cols {
                if mask & (1 << c) == 0 {
                    if let Some(x) = w[r][c] {
                        let v = x + best[r + 1][mask | (1 << c)];
                        if v > b {
                            b = v;
                            ch = c;
                        }
                    }
                }
            }
            best[r][mask] = b;
            choice[r][mask] = ch;
        }
    }
    let mut assign = vec![None; rows];
    let mut mask = 0usize;
    for r in 0..rows {
        let ch = choice[r][mask];
        if ch != usize::MAX {
            assign[r] = Some(ch);
            mask |= 1 << ch;
        }
    }
    (best.first().map(|b| b[0]).unwrap_or(0.0), assign)
}

/// Total of a given assignment; None when it uses an unavailable pair or a column twice.
pub fn total(w: &[Vec<Option<f64>>], unmatched: f64, assign: &[Option<usize>]) -> Option<f64> {
    let mut used = std::collections::HashSet::new();
    let mut t = 0.0;
    for (r, a) in assign.iter().enumerate() {
        match a {
            None => t += unmatched,
            Some(c) => {
                if !used.insert(*c) {
                    return None;
                }
                t += w[r][*c]?;
            }
        }
    }
    Some(t)
}

/// Best total among assignments that differ from `assign` in at least one row
/// (used as tie margin by differential checks). Brute force over "force row r to deviate".
pub fn runner_up(w: &[Vec<Option<f64>>], unmatched: f64, assign: &[Option<usize>]) -> f64 {
    let rows = w.len();
    let cols = w.first().map(|r| r.len()).unwrap_or(0);
    let mut best = f64::NEG_INFINITY;
    for r in 0..rows {
        // all alternatives for row r
        let mut alts: Vec<Option<usize>> = vec![None];
        alts.extend((0..cols).filter(|c| w[r][*c].is_some()).map(Some));
        for alt in alts {
            if alt == assign[r] {
                continue;
            }
            // fix row r to alt, solve the rest optimally
            let mut w2: Vec<Vec<Option<f64>>> = w.to_vec();
            let fixed = match alt {
                None => unmatched,
                Some(c) => {
                    let v = w[r][c].unwrap();
                    for row in w2.iter_mut() {
                        row[c] = None;
                    }
                    v
                }
            };
            w2.remove(r);
            let (t, _) = solve(&w2, unmatched);
            best = best.max(t + fixed);
        }
    }
    best
}

/// Row-order greedy: each row takes its best still-free column with weight >= unmatched.
pub fn greedy_rows(w: &[Vec<Option<f64>>], unmatched: f64) -> Vec<Option<usize>> {
    let mut used = std::collections::HashSet::new();
    w.iter()
        .map(|row| {
            let mut b: Option<(usize, f64)> = None;
            for (c, x) in row.iter().enumerate() {
                if let Some(x) = x {
                    if *x >= unmatched && !used.contains(&c) && b.map(|(_, y)| *x > y).unwrap_or(true) {
                        b = Some((c, *x));
                    }
                }
            }
            b.map(|(c, _)| {
                used.insert(c);
                c
            })
        })
        .collect()
}

/// Best-first greedy: pairs by decreasing weight.
pub fn greedy_best_first(w: &[Vec<Option<f64>>], unmatched: f64) -> Vec<Option<usize>> {
    let mut pairs = vec![];
    for (r, row) in w.iter().enumerate() {
        for (c, x) in row.iter().enumerate() {
            if let Some(x) = x {
                if *x >= unmatched {
                    pairs.push((*x, r, c));
                }
            }
        }
    }
    pairs.sort_by(|a, b| b.0.partial_cmp(&a.0).unwrap());
    let mut assign = vec![None; w.len()];
    let mut used = std::collections::HashSet::new();
    for (_, r, c) in pairs {
        if assign[r].is_none() && !used.contains(&c) {
            assign[r] = Some(c);
            used.insert(c);
        }
    }
    assign
}

#[cfg(test)]
mod tests {
    use super::*;
    #[test]
    fn small() {
        let w = vec![vec![Some(0.9), Some(0.8)], vec![Some(0.85), None]];
        let (t, a) = solve(&w, 0.3);
        assert!((t - 1.65).abs() < 1e-12);
        assert_eq!(a, vec![Some(1), Some(0)]);
        assert_eq!(greedy_rows(&w, 0.3), vec![Some(0), None]);
        assert!((runner_up(&w, 0.3, &a) - 1.2).abs() < 1e-12);
    }
}
