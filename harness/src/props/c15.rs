//! C15 Exclusively-owned area share against inclusion-exclusion / exact grid counting.

use crate::core::*;
use crate::ensure;
use crate::gen::boxes::*;
use crate::oracle::geom;
use proptest::prelude::*;
use serde::{Deserialize, Serialize};
use serde_json::Value;
use similari::utils::bbox::Universal2DBox;
use similari::utils::clipping::bbox_own_areas::{exclusively_owned_areas, exclusively_owned_areas_normalized_shares};
use similari::EPS;

#[derive(Clone, Copy, Debug, Serialize, Deserialize, PartialEq)]
pub enum SetKind {
    IntegerGrid,
    AxisAligned,
    Rotated,
    Degenerate,
}

#[derive(Clone, Debug, Serialize, Deserialize)]
pub struct SetCase {
    pub kind: SetKind,
    pub boxes: Vec<UB>,
    /// for IntegerGrid: the integer (l, t, w, h) the boxes were made from
    #[serde(default)]
    pub grid: Vec<(i32, i32, i32, i32)>,
    /// permutation seed for the order-independence relation
    pub perm: Vec<usize>,
    /// per box: edits applied to the box object before the call (vertex cache generated, then
    /// fields changed); the geometry that counts is the current one
    #[serde(default)]
    pub edits: Vec<Vec<crate::props::c08::BoxEdit>>,
}

fn perm_strategy() -> impl Strategy<Value = Vec<usize>> {
    Just((0..8usize).collect::<Vec<_>>()).prop_shuffle()
}

pub fn set_case() -> impl Strategy<Value = SetCase> {
    let integer = (proptest::collection::vec((0i32..24, 0i32..24, 1i32..16, 1i32..16), 1..=8), perm_strategy()).prop_map(|(g, perm)| SetCase {
        kind: SetKind::IntegerGrid,
        boxes: g.iter().map(|&(l, t, w, h)| UB::ltwh(l as f32, t as f32, w as f32, h as f32)).collect(),
        grid: g,
        perm,
        edits: vec![],
    });
    let aa = (proptest::collection::vec((0.0f32..60.0, 0.0f32..60.0, 2.0f32..40.0, 2.0f32..40.0), 1..=8), -1000.0f32..1000.0, perm_strategy()).prop_map(|(v, off, perm)| SetCase {
        kind: SetKind::AxisAligned,
        boxes: v.iter().map(|&(l, t, w, h)| UB::ltwh(l + off, t - off, w, h)).collect(),
        grid: vec![],
        perm,
        edits: vec![],
    });
    let rot = (proptest::collection::vec((0.0f32..60.0, 0.0f32..60.0, 2.0f32..40.0, 2.0f32..40.0, prop_oneof![1 => Just(None), 4 => (-3.2f32..3.2).prop_map(Some)]), 1..=8),
        // near the origin, or a tile far away from it (centres on the coarse f32 grid, sizes kept)
        prop_oneof![12 => -1000.0f32..1000.0, 1 => Just(16_777_216.0f32), 1 => Just(-30_000_000.0f32)], perm_strategy(),
        // orientation shared by the whole set (a lane of parallel objects), also quarter turns in
        // either direction, exact or a hair off, mixed with unrotated boxes
        prop_oneof![
            6 => Just((None, false)),
            2 => (-3.2f32..3.2).prop_map(|a| (Some(a), false)),
            2 => ((-4i32..=4), any::<bool>()).prop_map(|(k, mix)| (Some((k as f64 * std::f64::consts::FRAC_PI_2) as f32), mix)),
            1 => ((-4i32..=4), prop_oneof![Just(3e-6f32), Just(-3e-6f32)], any::<bool>()).prop_map(|(k, e, mix)| (Some((k as f64 * std::f64::consts::FRAC_PI_2) as f32 + e), mix)),
        ]).prop_map(|(v, off, perm, (common, mix))| SetCase {
        kind: SetKind::Rotated,
        boxes: v.iter().enumerate().map(|(i, &(x, y, w, h, a))| {
            let a = match common {
                Some(_) if mix && i % 2 == 1 => None,
                Some(ca) => Some(ca),
                None => a,
            };
            UB::new(x + off, y - off, a, w / h, h)
        }).collect(),
        grid: vec![],
        perm,
        edits: vec![],
    });
    // near-degenerate: shared / almost collinear edges, identical boxes, right-angle rotations
    let degen = (
        (0.0f32..40.0, 0.0f32..40.0, 4.0f32..30.0, 4.0f32..30.0, prop_oneof![Just(None), Just(Some(0.0f32)), (-3.2f32..3.2).prop_map(Some)]),
        proptest::collection::vec((0u8..6, -2i32..=2, -2i32..=2, 0u8..4, prop_oneof![Just(0.0f32), Just(1e-6f32), Just(-1e-6f32), Just(1e-4f32), Just(-1e-4f32)]), 0..=7),
        perm_strategy(),
    )
        .prop_map(|((x, y, w, h, ang), others, perm)| {
            let first = UB::new(x, y, ang, w / h, h);
            let mut boxes = vec![first];
            let a0 = ang.unwrap_or(0.0) as f64;
            for (mode, ix, iy, q, eps) in others {
                let prev = boxes[boxes.len() - 1];
                let pw = prev.width();
                let ph = prev.height;
                let pa = prev.angle.unwrap_or(0.0) as f64;
                let b = match mode {
                    // identical
                    0 => prev,
                    // translated by whole widths/heights along own axes (edge sharing)
                    1 => {
                        let (dx, dy) = (ix as f64 * pw as f64 * (1.0 + eps as f64), iy as f64 * ph as f64);
                        let (s, c) = pa.sin_cos();
                        UB::new((prev.xc as f64 + dx * c - dy * s) as f32, (prev.yc as f64 + dx * s + dy * c) as f32, prev.angle, prev.aspect, prev.height)
                    }
                    // right-angle rotation about the same centre
                    2 => UB::new(prev.xc, prev.yc, Some((a0 + q as f64 * std::f64::consts::FRAC_PI_2) as f32), prev.aspect, prev.height),
                    // same box, angle perturbed by a hair
                    3 => UB::new(prev.xc, prev.yc, Some((pa + eps as f64) as f32), prev.aspect, prev.height),
                    // half-size box sharing a corner
                    4 => {
                        let (dx, dy) = (ix.signum() as f64 * pw as f64 / 4.0, iy.signum() as f64 * ph as f64 / 4.0);
                        let (s, c) = pa.sin_cos();
                        UB::new((prev.xc as f64 + dx * c - dy * s) as f32, (prev.yc as f64 + dx * s + dy * c) as f32, prev.angle, prev.aspect, prev.height / 2.0)
                    }
                    // half-step translation (collinear edges partially overlapping)
                    _ => {
                        let (dx, dy) = (ix as f64 * pw as f64 / 2.0, 0.0);
                        let (s, c) = pa.sin_cos();
                        UB::new((prev.xc as f64 + dx * c - dy * s) as f32, (prev.yc as f64 + dx * s + dy * c) as f32, prev.angle, prev.aspect, prev.height)
                    }
                };
                boxes.push(b);
            }
            SetCase { kind: SetKind::Degenerate, boxes, grid: vec![], perm, edits: vec![] }
        });
    let base = prop_oneof![3 => integer, 3 => aa, 4 => rot, 3 => degen];
    // a fifth of the rotated / axis-aligned sets consist of box objects with a history
    (base, proptest::collection::vec(proptest::collection::vec(box_edit(), 0..4), 8), proptest::bool::weighted(0.2)).prop_map(|(mut c, edits, with_edits)| {
        if with_edits && matches!(c.kind, SetKind::Rotated | SetKind::AxisAligned) {
            c.edits = edits;
        }
        c
    })
}

fn box_edit() -> impl Strategy<Value = crate::props::c08::BoxEdit> {
    use crate::props::c08::BoxEdit;
    prop_oneof![
        3 => Just(BoxEdit::GenVertices),
        2 => (-30.0f32..90.0).prop_map(BoxEdit::SetXc),
        2 => (-30.0f32..90.0).prop_map(BoxEdit::SetYc),
        2 => (-3.2f32..3.2).prop_map(BoxEdit::RotateMut),
        1 => (0.3f32..3.0).prop_map(BoxEdit::SetAspect),
        1 => (3.0f32..40.0).prop_map(BoxEdit::SetHeight),
    ]
}

/// the box objects handed to the library and their current geometry
fn materialize(c: &SetCase) -> (Vec<Universal2DBox>, Vec<UB>) {
    let mut libs = vec![];
    let mut cur = vec![];
    for (i, b) in c.boxes.iter().enumerate() {
        let (l, u) = crate::props::c08::apply_edits(b, c.edits.get(i).map(|v| v.as_slice()).unwrap_or(&[]));
        libs.push(l);
        cur.push(u);
    }
    (libs, cur)
}

/// Near-degenerate input by an objective geometric predicate: some vertex of one box lies
/// within 1e-4 of the pair's size of an edge of another box. This covers identical boxes,
/// coincident corners, T-junctions, shared or partially overlapping collinear edges and
/// hair-angle perturbations - the inputs on which geo 0.27's boolean operations are known to
/// panic, hang or return wrong areas (known finding D9). Inputs in general position are
/// never excused.
pub fn degenerate(rb: &[geom::RBox]) -> bool {
    fn dist_seg(v: geom::P, p: geom::P, q: geom::P) -> f64 {
        let d = q.sub(p);
        let l2 = d.dot(d);
        if l2 == 0.0 {
            return v.sub(p).norm();
        }
        let t = (v.sub(p).dot(d) / l2).clamp(0.0, 1.0);
        v.sub(p.add(d.scale(t))).norm()
    }
    for i in 0..rb.len() {
        for j in 0..rb.len() {
            if i == j {
                continue;
            }
            let tol = 1e-4 * rb[i].radius().max(rb[j].radius());
            let o = rb[i].center();
            let vi = rb[i].vertices_rel(o);
            let vj = rb[j].vertices_rel(o);
            for v in vi {
                for k in 0..4 {
                    if dist_seg(v, vj[k], vj[(k + 1) % 4]) <= tol {
                        return true;
                    }
                }
            }
        }
    }
    false
}

fn qualify(f: Fail, degen: bool) -> Fail {
    if !degen {
        return f;
    }
    let geo_thread_panic = f.signature.starts_with("panic@thread:algorithm/bool_ops/") || f.signature.starts_with("panic@thread:algorithm/sweep/");
    let kind = if f.signature == "panic@own_areas:geo-boolean-ops" || geo_thread_panic {
        // (a panic on a rayon worker while another worker never returns is reported by the
        // child's watchdog as panic@thread:<location in geo>)
        "panic-geo"
    } else if f.signature.starts_with("hang@") {
        "hang"
    } else if f.signature == "own-area-value" || f.signature == "own-area-order" || f.signature == "own-area-free" || f.signature == "own-area-range" {
        "value"
    } else {
        return f;
    };
    Fail::new(format!("own_areas:degenerate-input:{}", kind), f.msg)
}

/// All panics raised inside geo 0.27's boolean-operation sweep (several internal sites:
/// bool_ops/assembly.rs, sweep/vec_set.rs, ...) are one root cause and get one signature.
fn panic_fail(loc: String, msg: String, what: &str) -> Fail {
    let sig = if loc.starts_with("algorithm/bool_ops/") || loc.starts_with("algorithm/sweep/") {
        "panic@own_areas:geo-boolean-ops".to_string()
    } else {
        format!("panic@own_areas:{}", loc)
    };
    Fail::new(sig, format!("exclusively_owned_areas panicked{} at {}: {}", what, loc, msg))
}

fn shares(boxes: &[UB]) -> Result<Vec<f32>, (String, String)> {
    let libs: Vec<Universal2DBox> = boxes.iter().map(|b| b.lib()).collect();
    shares_of(&libs)
}

fn shares_of(libs: &[Universal2DBox]) -> Result<Vec<f32>, (String, String)> {
    let refs: Vec<&Universal2DBox> = libs.iter().collect();
    guard(|| {
        let polys = exclusively_owned_areas(&refs);
        exclusively_owned_areas_normalized_shares(&refs, &polys)
    })
}

pub fn check_set(c: &SetCase) -> CaseResult {
    let rb: Vec<geom::RBox> = materialize(c).1.iter().map(|b| b.rbox()).collect();
    let degen = degenerate(&rb);
    check_set_inner(c).map(|ok| ok.label_if(degen, "degenerate_by_predicate")).map_err(|f| qualify(f, degen))
}

fn check_set_inner(c0: &SetCase) -> CaseResult {
    // box objects with a history are replaced by their current geometry for the reference
    let (libs, cur) = materialize(c0);
    let mut c1 = c0.clone();
    c1.boxes = cur;
    let c = &c1;
    let n = c.boxes.len();
    let got = match shares_of(&libs) {
        Ok(v) => v,
        // panics from rayon workers are re-raised on the caller without a location
        Err((loc, msg)) => return Err(panic_fail(loc, msg, "")),
    };
    ensure!(got.len() == n, "own-area-count", "{} shares for {} boxes", got.len(), n);
    let rb: Vec<geom::RBox> = c.boxes.iter().map(|b| b.rbox()).collect();
    let mut deep = false;
    for i in 0..n {
        let area = rb[i].area();
        let reference = if c.kind == SetKind::IntegerGrid {
            geom::exclusive_area_grid(&c.grid, i) as f64 / area
        } else {
            geom::exclusive_area(&rb, i) / area
        };
        let g = got[i] as f64;
        ensure!(g.is_finite() && (0.0..=1.0).contains(&g), "own-area-range", "share {} of box {} outside [0,1]", g, i);
        let tol = 1e-4 + 2.0 * EPS as f64 / area;
        ensure!((g - reference).abs() <= tol, "own-area-value", "share of box {} is {} but the uncovered fraction is {}", i, g, reference);
        let overlaps_none = (0..n).all(|j| j == i || geom::sat_gap(&rb[i], &rb[j]) > 1e-6);
        if overlaps_none {
            ensure!(g >= 1.0 - tol, "own-area-free", "box {} overlaps nothing but its share is {}", i, g);
        }
        // depth >= 3 somewhere inside box i?
        if !deep && n >= 3 {
            let o = rb[i].center();
            let base = rb[i].vertices_rel(o).to_vec();
            'o: for j in 0..n {
                if j == i { continue; }
                let p1 = geom::convex_clip(&base, &rb[j].vertices_rel(o));
                if geom::poly_area(&p1) <= 1e-9 * area { continue; }
                for k in j + 1..n {
                    if k == i { continue; }
                    if geom::poly_area(&geom::convex_clip(&p1, &rb[k].vertices_rel(o))) > 1e-9 * area {
                        deep = true;
                        break 'o;
                    }
                }
            }
        }
    }
    // order independence
    let order: Vec<usize> = c.perm.iter().copied().filter(|&i| i < n).collect();
    if order.len() == n && n > 1 {
        let permuted: Vec<UB> = order.iter().map(|&i| c.boxes[i]).collect();
        match shares(&permuted) {
            Ok(p) => {
                for (pos, &i) in order.iter().enumerate() {
                    ensure!((p[pos] - got[i]).abs() <= 1e-4 + 2.0 * EPS / rb[i].area() as f32, "own-area-order", "share of box {} changes from {} to {} when the input is permuted", i, got[i], p[pos]);
                }
            }
            Err((loc, msg)) => return Err(panic_fail(loc, msg, " on a permutation of the input")),
        }
    }
    Ok(CaseOk::new(deep || degenerate(&rb) || !c0.edits.is_empty())
        .label_if(!c0.edits.is_empty(), "edited_box_objects")
        .label(match c.kind { SetKind::IntegerGrid => "integer_grid", SetKind::AxisAligned => "axis_aligned", SetKind::Rotated => "rotated", SetKind::Degenerate => "degenerate" })
        .label_if(deep, "depth3"))
}

/// A set in general position in which some boxes occur more than once: as the same object
/// referenced twice in the slice, or as a separately allocated copy.
#[derive(Clone, Debug, Serialize, Deserialize)]
pub struct DupCase {
    pub boxes: Vec<UB>,
    /// (index of the box that occurs once more, true = the same object again / false = a copy)
    pub dups: Vec<(usize, bool)>,
}

pub fn dup_case() -> impl Strategy<Value = DupCase> {
    (
        proptest::collection::vec((0.0f32..60.0, 0.0f32..60.0, 2.0f32..40.0, 2.0f32..40.0, prop_oneof![1 => Just(None), 3 => (-3.2f32..3.2).prop_map(Some)]), 1..=5),
        -500.0f32..500.0,
        proptest::collection::vec((0usize..65536, any::<bool>()), 1..=3),
    )
        .prop_map(|(v, off, d)| {
            let n = v.len();
            DupCase { boxes: v.iter().map(|&(x, y, w, h, a)| UB::new(x + off, y - off, a, w / h, h)).collect(), dups: d.into_iter().map(|(i, alias)| ((i * n) >> 16, alias)).collect() }
        })
}

/// For a box that occurs twice, geo's boolean operations either fail loudly (panic / no
/// termination: known finding D9) or return the empty region (probe: 0 wrong values in 2428
/// returning calls), so a non-zero share of such a box is not excused. The shares of the boxes
/// occurring once next to duplicates are in D9's input class (coincident edges after the first
/// subtraction) and are excused like any other degenerate set.
pub fn check_dups(c: &DupCase) -> CaseResult {
    let rb: Vec<geom::RBox> = c.boxes.iter().map(|b| b.rbox()).collect();
    if degenerate(&rb) {
        return Ok(CaseOk::new(false).label("distinct_boxes_not_in_general_position_skipped"));
    }
    let libs: Vec<Universal2DBox> = c.boxes.iter().map(|b| b.lib()).collect();
    let copies: Vec<Universal2DBox> = c.dups.iter().map(|(i, _)| c.boxes[*i].lib()).collect();
    let mut refs: Vec<&Universal2DBox> = libs.iter().collect();
    let mut idx: Vec<usize> = (0..libs.len()).collect();
    for (k, (i, alias)) in c.dups.iter().enumerate() {
        refs.push(if *alias { &libs[*i] } else { &copies[k] });
        idx.push(*i);
    }
    let got = match guard(|| {
        let polys = exclusively_owned_areas(&refs);
        exclusively_owned_areas_normalized_shares(&refs, &polys)
    }) {
        Ok(v) => v,
        Err((loc, msg)) => return Err(qualify(panic_fail(loc, msg, " on a set with exact duplicates"), true)),
    };
    ensure!(got.len() == refs.len(), "own-area-count", "{} shares for {} boxes", got.len(), refs.len());
    let mult: Vec<usize> = (0..libs.len()).map(|i| idx.iter().filter(|&&j| j == i).count()).collect();
    // a box that occurs twice is fully covered by its twin: never excused
    for (pos, &i) in idx.iter().enumerate() {
        if mult[i] > 1 {
            let g = got[pos] as f64;
            let tol = 1e-4 + 2.0 * EPS as f64 / rb[i].area();
            ensure!(g.is_finite() && g.abs() <= tol, "own-area-duplicate-value", "box at position {} (box {} of the set) occurs {} times in the set, i.e. is fully covered by its twin, but its share is {}", pos, i, mult[i], g);
        }
    }
    // the boxes that occur once: subtracting the same polygon twice leaves geo with coincident
    // edges, the input class of known finding D9 (wrong region returned silently)
    for (pos, &i) in idx.iter().enumerate() {
        if mult[i] == 1 {
            let area = rb[i].area();
            let reference = geom::exclusive_area(&rb, i) / area;
            let g = got[pos] as f64;
            let tol = 1e-4 + 2.0 * EPS as f64 / area;
            if !(g.is_finite() && (g - reference).abs() <= tol) {
                return Err(qualify(Fail::new("own-area-value", format!("share of box {} (occurring once, next to duplicated boxes) is {} but the uncovered fraction is {}", i, g, reference)), true));
            }
        }
    }
    Ok(CaseOk::new(true).label_if(c.dups.iter().any(|d| d.1), "same_object_twice").label_if(c.dups.iter().any(|d| !d.1), "separate_copy"))
}

/// The trackers' own use of the function (VisualSORT with an own-area threshold): the share stored
/// with the newest observation of every track is the uncovered fraction of that detection among the
/// detections of *its own call and scene* - with and without features, one or several scenes per
/// batch. Other parts of the tracker contract are C01/C13's business and are ignored here.
pub fn check_tracker_shares(h: &crate::gen::scenes::History) -> CaseResult {
    use crate::props::trkmon::{run_monitored, Flags};
    let flags = Flags { c01: false, c03: false, c13: true, margins: false, group_batches: true };
    match run_monitored(h, flags) {
        Ok(st) => Ok(CaseOk::new(st.own_area_checks_occluded > 0).label(h.cfg.kind.name()).label_if(st.own_area_checks_occluded > 0, "partly_covered_detection_stored")),
        Err(f) if f.signature.starts_with("c13-own-area") => Err(Fail::new(format!("tracker-{}", &f.signature[4..]), f.msg)),
        Err(f) => {
            if std::env::var("SV_DBG").is_ok() {
                return Err(f);
            }
            Ok(CaseOk::trivial().label("other_contract_failure_ignored"))
        }
    }
}

fn shares_history(kind: crate::trk::Kind) -> impl Strategy<Value = crate::gen::scenes::History> {
    (crate::gen::scenes::history(kind, false, 30), 0u8..3, 0.05f32..0.6).prop_map(|(mut h, mode, thr)| {
        // an own-area threshold is always configured: for use, for collection, or for both
        match mode {
            0 => { h.cfg.vis.own_use = thr; h.cfg.vis.own_collect = 0.0; }
            1 => { h.cfg.vis.own_use = 0.0; h.cfg.vis.own_collect = thr; }
            _ => { h.cfg.vis.own_use = thr; h.cfg.vis.own_collect = thr; }
        }
        h
    })
}

pub fn run(env: &Env, rep: &Report) {
    rep.set_rule("(sets) sets of 1..8 boxes: integer axis-aligned (exact grid count), random axis-aligned and rotated (inclusion-exclusion over convex intersections), near-degenerate sets (identical boxes, shared / partially overlapping collinear edges, right-angle rotations, hair-angle perturbations). Non-trivial: >=3 boxes with a region covered by >=3 of them, or a degenerate set; distinct = distinct serialized case");
    rep.assume("reference: oracle/geom.rs inclusion-exclusion (f64) and exact unit-cell counting; tolerance 1e-4 + 2 EPS/area");
    rep.assume("each case is evaluated in a child process; no answer within 10 s (typical case: < 1 ms) counts as non-termination of the computation");
    let pool = IsoPool::new(&env.prop, "sets", std::time::Duration::from_secs(10));
    let check = |c: &SetCase| -> CaseResult {
        pool.eval(c).map_err(|f| {
            if f.signature.starts_with("hang@") || f.signature.starts_with("panic@thread:") {
                let rb: Vec<geom::RBox> = materialize(c).1.iter().map(|b| b.rbox()).collect();
                qualify(f, degenerate(&rb))
            } else {
                f
            }
        })
    };
    par_generated(rep, "sets", set_case, env.tier.pick(40_000, 1_000_000), workers(), check);
    let pool2 = IsoPool::new(&env.prop, "dups", std::time::Duration::from_secs(10));
    let check2 = |c: &DupCase| -> CaseResult {
        pool2.eval(c).map_err(|f| if f.signature.starts_with("hang@") || f.signature.starts_with("panic@thread:") { qualify(f, true) } else { f })
    };
    par_generated(rep, "dups", dup_case, env.tier.pick(12_000, 300_000), workers(), check2);
    let pool3 = IsoPool::new(&env.prop, "tracker-shares", std::time::Duration::from_secs(120));
    for kind in [crate::trk::Kind::VisualSort, crate::trk::Kind::BatchVisualSort] {
        par_generated(rep, "tracker-shares", move || shares_history(kind), env.tier.pick(3_000, 40_000), workers(), crate::props::c01::iso_check(&pool3, rep));
    }
    rep.set_extra("child_timeouts", serde_json::json!(pool.timeouts.load(std::sync::atomic::Ordering::Relaxed)));
    rep.set_extra("child_crashes", serde_json::json!(pool.crashes.load(std::sync::atomic::Ordering::Relaxed)));
}

/// Replay through a child process (a known hanging input must not hang the replay tier).
pub fn replay_isolated(env_prop: &str, sub: &str, case: Value) -> Option<CaseResult> {
    if sub == "dups" {
        let c: DupCase = match serde_json::from_value(case) {
            Ok(c) => c,
            Err(e) => return Some(Err(Fail::new("replay-decode", format!("{}", e)))),
        };
        let pool = IsoPool::new(env_prop, "dups", std::time::Duration::from_secs(10));
        return Some(pool.eval(&c).map_err(|f| if f.signature.starts_with("hang@") || f.signature.starts_with("panic@thread:") { qualify(f, true) } else { f }));
    }
    if sub == "tracker-shares" {
        return Some(replay_case(case, check_tracker_shares, sub));
    }
    if sub != "sets" {
        return None;
    }
    let c: SetCase = match serde_json::from_value(case) {
        Ok(c) => c,
        Err(e) => return Some(Err(Fail::new("replay-decode", format!("{}", e)))),
    };
    let pool = IsoPool::new(env_prop, "sets", std::time::Duration::from_secs(10));
    let r = pool.eval(&c).map_err(|f| {
        if f.signature.starts_with("hang@") || f.signature.starts_with("panic@thread:") {
            let rb: Vec<geom::RBox> = materialize(&c).1.iter().map(|b| b.rbox()).collect();
            qualify(f, degenerate(&rb))
        } else {
            f
        }
    });
    Some(r)
}

pub fn replay(sub: &str, case: Value) -> Option<CaseResult> {
    match sub {
        "sets" => Some(replay_case(case, check_set, sub)),
        "dups" => Some(replay_case(case, check_dups, sub)),
        "tracker-shares" => Some(replay_case(case, check_tracker_shares, sub)),
        _ => None,
    }
}
