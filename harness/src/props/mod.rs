//! Property registry: every property module exposes `run(env, report)` and
//! `replay(sub, case) -> Option<CaseResult>`.

use crate::core::{CaseResult, Env, Fail, Report};
use serde_json::Value;
use std::path::Path;

pub mod c01;
pub mod c02;
pub mod c03;
pub mod c04;
pub mod c05;
pub mod c06;
pub mod decide;
pub mod shadow;
pub mod trkmon;
pub mod c07;
pub mod c08;
pub mod c09;
pub mod c10;
pub mod c11;
pub mod c12;
pub mod c13;
pub mod c14;
pub mod c15;
pub mod c16;
pub mod c17;
pub mod c18;
pub mod c19;
pub mod c20;

pub struct PropDef {
    pub id: &'static str,
    pub level: &'static str,
    pub run: fn(&Env, &Report),
    pub replay: fn(&str, Value) -> Option<CaseResult>,
    /// replay through a child process (for checks whose known findings include hangs)
    pub replay_isolated: Option<fn(&str, &str, Value) -> Option<CaseResult>>,
}

impl PropDef {
    fn do_replay(&self, sub: &str, case: Value) -> Option<CaseResult> {
        match self.replay_isolated {
            Some(f) => f(self.id, sub, case),
            None => (self.replay)(sub, case),
        }
    }
}

pub fn registry() -> Vec<PropDef> {
    vec![
        PropDef { id: "C01", level: "exploration", run: c01::run, replay: c01::replay, replay_isolated: None },
        PropDef { id: "C02", level: "exploration", run: c02::run, replay: c02::replay, replay_isolated: None },
        PropDef { id: "C03", level: "exploration", run: c03::run, replay: c03::replay, replay_isolated: None },
        PropDef { id: "C04", level: "exploration", run: c04::run, replay: c04::replay, replay_isolated: None },
        PropDef { id: "C05", level: "exploration", run: c05::run, replay: c05::replay, replay_isolated: None },
        PropDef { id: "C06", level: "exploration", run: c06::run, replay: c06::replay, replay_isolated: None },
        PropDef { id: "C07", level: "exploration", run: c07::run, replay: c07::replay, replay_isolated: None },
        PropDef { id: "C08", level: "exploration", run: c08::run, replay: c08::replay, replay_isolated: None },
        PropDef { id: "C09", level: "exploration", run: c09::run, replay: c09::replay, replay_isolated: None },
        PropDef { id: "C10", level: "exploration", run: c10::run, replay: c10::replay, replay_isolated: None },
        PropDef { id: "C11", level: "fault_enumeration", run: c11::run, replay: c11::replay, replay_isolated: None },
        PropDef { id: "C12", level: "exploration", run: c12::run, replay: c12::replay, replay_isolated: None },
        PropDef { id: "C13", level: "exploration", run: c13::run, replay: c13::replay, replay_isolated: None },
        PropDef { id: "C14", level: "exploration", run: c14::run, replay: c14::replay, replay_isolated: None },
        PropDef { id: "C15", level: "exploration", run: c15::run, replay: c15::replay, replay_isolated: Some(c15::replay_isolated) },
        PropDef { id: "C16", level: "exploration", run: c16::run, replay: c16::replay, replay_isolated: None },
        PropDef { id: "C17", level: "exploration", run: c17::run, replay: c17::replay, replay_isolated: None },
        PropDef { id: "C18", level: "translation_validation", run: c18::run, replay: c18::replay, replay_isolated: None },
        PropDef { id: "C19", level: "exploration", run: c19::run, replay: c19::replay, replay_isolated: None },
        PropDef { id: "C20", level: "exploration", run: c20::run, replay: c20::replay, replay_isolated: None },
    ]
}

fn find(id: &str) -> Option<PropDef> {
    registry().into_iter().find(|p| p.id == id)
}

/// Replays every committed case under replays/<ID>/ (files named fail-* are results of earlier
/// failing runs and are replayed too: a fixed defect must stay fixed). Returns false on failure.
fn replay_corpus(env: &Env, def: &PropDef, rep: &Report) -> bool {
    // SV_NO_CORPUS=1: generated search only (used to measure what the search finds by itself)
    if std::env::var("SV_NO_CORPUS").is_ok() {
        return true;
    }
    let dir = env.verif_dir.join("replays").join(def.id);
    let mut files: Vec<_> = match std::fs::read_dir(&dir) {
        Ok(rd) => rd.filter_map(|e| e.ok()).map(|e| e.path()).collect(),
        Err(_) => return true,
    };
    files.sort();
    let mut ok = true;
    for f in files {
        if f.extension().and_then(|e| e.to_str()) != Some("json") {
            continue;
        }
        // fail-* files are written by failing runs; they are not part of the committed corpus
        // unless renamed. They are still replayed when present and tracked by git.
        let text = match std::fs::read_to_string(&f) {
            Ok(t) => t,
            Err(_) => continue,
        };
        let v: Value = match serde_json::from_str(&text) {
            Ok(v) => v,
            Err(_) => continue,
        };
        let sub = v.get("sub").and_then(|s| s.as_str()).unwrap_or("").to_string();
        let case = v.get("case").cloned().unwrap_or(Value::Null);
        let name = f.file_name().unwrap().to_string_lossy().to_string();
        if name.starts_with("fail-") && std::env::var("SV_REPLAY_FAILS").is_err() {
            continue;
        }
        let r = if def.id == "C18" { Some(c18::replay_file(env, &f)) } else { def.do_replay(&sub, case.clone()) };
        match r {
            None => {
                eprintln!("[sv] replay {}: unknown sub-check {}", name, sub);
            }
            Some(Ok(okc)) => {
                rep.record_ok("replay-corpus", &okc, crate::core::hash_str(&text), || {
                    serde_json::json!({"file": name})
                });
            }
            Some(Err(fail)) => {
                if rep.is_known(&fail.signature) {
                    rep.record_known("replay-corpus", &fail.signature);
                } else {
                    eprintln!("[sv] corpus replay {} failed: {}", f.display(), fail.msg);
                    println!("VIOLATION property={} replay={}", def.id, f.display());
                    rep.stop.store(true, std::sync::atomic::Ordering::SeqCst);
                    rep.mark_violation_external(&sub, fail, f.clone());
                    ok = false;
                }
            }
        }
    }
    ok
}

pub fn run(env: &Env) -> i32 {
    let def = match find(&env.prop) {
        Some(d) => d,
        None => {
            eprintln!("unknown property {}", env.prop);
            return 64;
        }
    };
    let rep = Report::new(env, def.level);
    if replay_corpus(env, &def, &rep) {
        if std::env::var("SV_ONLY_FUZZ").is_err() {
            (def.run)(env, &rep);
        }
        // thorough tier: bounded coverage-guided campaigns on top of the generated checks
        if env.tier == crate::core::Tier::Thorough && std::env::var("SV_NO_FUZZ").is_err() {
            let runs = std::env::var("SV_FUZZ_RUNS").ok().and_then(|v| v.parse().ok()).unwrap_or(3_000_000u64);
            crate::fuzz::campaign(env, &rep, runs);
        }
    }
    rep.finish()
}

pub fn child(env: &Env, sub: &str) -> i32 {
    if sub == "pydriver" {
        return c18::driver_loop();
    }
    match find(&env.prop) {
        Some(def) => crate::core::child_loop(sub, def.replay),
        None => 64,
    }
}

pub fn replay_file(env: &Env, path: &Path) -> i32 {
    let def = match find(&env.prop) {
        Some(d) => d,
        None => {
            eprintln!("unknown property {}", env.prop);
            return 64;
        }
    };
    let text = std::fs::read_to_string(path).expect("cannot read replay file");
    let v: Value = serde_json::from_str(&text).expect("replay file is not JSON");
    let sub = v.get("sub").and_then(|s| s.as_str()).unwrap_or("").to_string();
    let case = v.get("case").cloned().unwrap_or(Value::Null);
    let known = crate::core::load_known_findings(env);
    let r = if def.id == "C18" { Some(c18::replay_file(env, path)) } else { def.do_replay(&sub, case) };
    match r {
        None => {
            eprintln!("unknown sub-check {}", sub);
            64
        }
        Some(Ok(_)) => {
            eprintln!("[sv] replay passed: {}", path.display());
            0
        }
        Some(Err(Fail { signature, msg })) => {
            if known.iter().any(|k| k.property == def.id && k.signature == signature) {
                println!("KNOWN-FINDING: property={} signature={} (replay {})", def.id, signature, path.display());
                0
            } else {
                eprintln!("[sv] {}: {}", signature, msg);
                println!("VIOLATION property={} replay={}", def.id, path.display());
                1
            }
        }
    }
}
