//! C06 Batch trackers refine simple trackers; one result per scene; no deadlock.

use crate::core::*;
use crate::ensure;
use crate::gen::boxes::UB;
use crate::gen::scenes::*;
use crate::props::c04::same_up_to_ids;
use crate::props::trkmon::{call_margin, same_box, MARGIN};
use crate::sched::{self, Key, Plan, Step, ANY};
use crate::trk::*;
use proptest::prelude::*;
use serde::{Deserialize, Serialize};
use serde_json::Value;
use std::collections::{BTreeMap, BTreeSet};

#[derive(Clone, Debug, Serialize, Deserialize)]
pub struct BatchCase {
    pub cfg: Cfg,
    pub objs: Vec<Obj>,
    pub feat_dim: usize,
    /// each batch: (scene, detections); a scene occurs at most once per batch
    pub batches: Vec<Vec<(u64, Vec<DetSpec>)>>,
    /// per batch: drain on a separate thread (true) or on the caller after predict returned
    pub drain_thread: Vec<bool>,
    pub choices: Vec<u16>,
    pub delays: Vec<(u8, u8, u16)>,
    pub controlled: bool,
    /// 0: drop the tracker after the last batch was drained; 1: submit one more batch, drop its
    /// result handle undrained, then drop the tracker
    pub drop_mode: u8,
    /// period of the internal collection of expired tracks set on both trackers before the first
    /// batch (None: the default of 100 calls, which these short histories never reach)
    #[serde(default)]
    pub auto_waste: Option<usize>,
    /// index of a batch whose result handle is dropped unread right after submission while the
    /// tracker stays in use (the library tolerates that and only logs a warning)
    #[serde(default)]
    pub abandon: Option<usize>,
    /// the consumer thread of the first pipelined batch starts reading only after this many
    /// milliseconds (a slow downstream stage): the next submission has to wait for it
    #[serde(default)]
    pub slow_consumer_ms: u16,
}

/// submits a batch and drops its result handle unread
fn submit_abandoned(tr: &mut Tracker, b: &[(u64, Vec<Det>)]) {
    match tr {
        Tracker::BS(t) => {
            let (mut req, res) = similari::trackers::batch::PredictionBatchRequest::<(similari::utils::bbox::Universal2DBox, Option<i64>)>::new();
            for (s, d) in b {
                for x in d {
                    req.add(*s, (x.b.lib(), x.custom));
                }
            }
            drop(res);
            t.predict(req);
        }
        Tracker::BV(t) => {
            let (mut req, res) = similari::trackers::batch::PredictionBatchRequest::<similari::prelude::VisualSortObservation>::new();
            for (s, d) in b {
                for x in d {
                    req.add(*s, similari::prelude::VisualSortObservation::new(x.feat.as_deref(), x.q, x.b.lib(), x.custom));
                }
            }
            drop(res);
            t.predict(req);
        }
        _ => {}
    }
}

fn as_history(c: &BatchCase) -> History {
    History { cfg: c.cfg.clone(), objs: c.objs.clone(), feat_dim: c.feat_dim, ops: vec![], scale: 1.0 }
}

const SITES: [&str; 6] = ["voting.store.write", "voting.job.begin", "batch.scene.dispatched", "store.cmd.end", "voting.id.assigned", "voting.id.assigned"];

pub fn check_batches(c: &BatchCase) -> CaseResult {
    let h = as_history(c);
    let cfg = &c.cfg;
    // detections per batch / scene (custom ids unique and identical in both runs)
    let mut batches: Vec<Vec<(u64, Vec<Det>)>> = vec![];
    for (bi, b) in c.batches.iter().enumerate() {
        let mut v = vec![];
        let mut seen = BTreeSet::new();
        for (si, (scene, specs)) in b.iter().enumerate() {
            if !seen.insert(*scene) {
                continue;
            }
            let dets = h.dets(specs, (bi as i64 + 1) * 100_000 + si as i64 * 1000);
            if !dets.is_empty() {
                v.push((*scene, dets));
            }
        }
        batches.push(v);
    }
    // reference: the simple tracker, scene by scene, with decision margins
    let mut simple_cfg = cfg.clone();
    simple_cfg.kind = cfg.kind.simple();
    let mut simple = Tracker::new(&simple_cfg);
    if let Some(p) = c.auto_waste {
        simple.set_auto_waste(p);
    }
    let mut ref_records: BTreeMap<u64, Vec<Vec<Rec>>> = BTreeMap::new();
    let mut ref_margins: BTreeMap<u64, Vec<f64>> = BTreeMap::new();
    let mut epochs: BTreeMap<u64, usize> = BTreeMap::new();
    for b in &batches {
        for (scene, dets) in b {
            let e = epochs.get(scene).copied().unwrap_or(0) + 1;
            epochs.insert(*scene, e);
            let m = call_margin(&simple_cfg, &simple.views(simple_cfg.shards), *scene, e, dets);
            ref_margins.entry(*scene).or_default().push(m);
            ref_records.entry(*scene).or_default().push(simple.predict(*scene, dets));
        }
    }
    drop(simple);
    // the batch tracker under a schedule plan
    let mut tr = Tracker::new(cfg);
    if let Some(p) = c.auto_waste {
        tr.set_auto_waste(p);
    }
    let mut got: BTreeMap<u64, Vec<Vec<Rec>>> = BTreeMap::new();
    let mut issued: BTreeSet<u64> = BTreeSet::new();
    let mut live: BTreeSet<u64> = BTreeSet::new();
    let mut expired_total = 0u32;
    let mut plans_ordering = 0usize;
    let mut choice_pos = 0usize;
    // results of pipelined batches still being drained by their own threads
    let mut pendings: Vec<(usize, Pending)> = vec![];
    let mut pipelined = 0usize;
    let mut installed_keep: Option<sched::Installed> = None;
    // scenes that were part of an abandoned batch: the tracks it started are unknown to the checker
    let abandoned_scenes: std::cell::RefCell<BTreeMap<u64, usize>> = std::cell::RefCell::new(BTreeMap::new());
    let mut process = |bi: usize, b: &Vec<(u64, Vec<Det>)>, results: Vec<(u64, Vec<Rec>)>, tr: &Tracker, got: &mut BTreeMap<u64, Vec<Vec<Rec>>>, issued: &mut BTreeSet<u64>, live: &mut BTreeSet<u64>, check_own: bool| -> Result<(), Fail> {
        // (b) exactly one result per scene of the batch, records in submission order
        ensure!(results.len() == b.len(), "batch-result-count", "batch {}: {} results for {} scenes", bi, results.len(), b.len());
        let mut seen = BTreeSet::new();
        let mut new_ids_in_batch = BTreeSet::new();
        for (scene, recs) in &results {
            ensure!(seen.insert(*scene), "batch-scene-twice", "batch {}: two results for scene {}", bi, scene);
            let dets = match b.iter().find(|x| x.0 == *scene) {
                Some(x) => &x.1,
                None => return Err(Fail::new("batch-foreign-scene", format!("batch {}: result for scene {} which is not part of the batch", bi, scene))),
            };
            ensure!(recs.len() == dets.len(), "batch-record-count", "batch {} scene {}: {} records for {} detections", bi, scene, recs.len(), dets.len());
            let mut ids = BTreeSet::new();
            for (i, r) in recs.iter().enumerate() {
                ensure!(r.custom == dets[i].custom && r.scene == *scene && same_box(&r.observed, &dets[i].b, 2.0), "batch-record-order", "batch {} scene {}: record {} does not echo detection {} ({:?} vs {:?})", bi, scene, i, i, r, dets[i].b);
                ensure!(ids.insert(r.id), "batch-duplicate-id", "batch {} scene {}: track id {} given to two detections", bi, scene, r.id);
                if r.length == 1 {
                    ensure!(!issued.contains(&r.id) && new_ids_in_batch.insert(r.id), "batch-id-reused", "batch {} scene {}: new track gets id {} which was issued before", bi, scene, r.id);
                } else if !abandoned_scenes.borrow().contains_key(scene) {
                    ensure!(live.contains(&r.id), "batch-unknown-track", "batch {} scene {}: record continues unknown track {}", bi, scene, r.id);
                }
            }
            // the exclusively-owned share stored with each new observation is the one of its own
            // scene's detection set
            if check_own && cfg.kind.is_visual() && cfg.vis.own_use + cfg.vis.own_collect > 0.0 {
                let rb: Vec<crate::oracle::geom::RBox> = dets.iter().map(|d| d.b.rbox()).collect();
                for (i, r) in recs.iter().enumerate() {
                    if let Some(v) = tr.view(r.id) {
                        let stored = match v.gallery.first().and_then(|g| g.own_area) {
                            Some(s) => s,
                            None => return Err(Fail::new("batch-own-area-lost", format!("batch {} scene {}: detection {} is stored without an own-area share although an own-area threshold is configured", bi, scene, i))),
                        };
                        {
                            let want = crate::oracle::geom::exclusive_area(&rb, i) / rb[i].area();
                            ensure!((stored as f64 - want).abs() <= 2e-3 + 2.0 * similari::EPS as f64 / rb[i].area(), "batch-own-area", "batch {} scene {}: detection {} is stored with own-area share {} but {} of it is uncovered by the other detections of its scene", bi, scene, i, stored, want);
                        }
                    }
                }
            }
            got.entry(*scene).or_default().push(recs.clone());
        }
        for (_, recs) in &results {
            for r in recs {
                issued.insert(r.id);
                live.insert(r.id);
            }
        }
    
        Ok(())
    };
    for (bi, b) in batches.iter().enumerate() {
        if b.is_empty() {
            // an empty batch is a legal submission: it delivers nothing and must not disturb the
            // batches still in flight
            if let Some(p) = tr.submit_batch(b) {
                let r = p.collect();
                ensure!(r.is_empty(), "batch-result-count", "batch {}: an empty batch delivered {} results", bi, r.len());
            }
            continue;
        }
        // the plan of the previous (pipelined) batch stays in force until the next one is installed
        if let Some(inst) = installed_keep.take() {
            expired_total += inst.ctl.expired();
            drop(inst);
        }
        let installed = if c.controlled {
            // total order over the voting jobs of this batch (begin .. end) and, interleaved, the
            // dispatch of every scene; causally impossible orders expire (bounded) and are counted
            let scenes: Vec<u64> = b.iter().map(|x| x.0).collect();
            let mut events: Vec<Step> = vec![];
            let m = scenes.len();
            let job = |s: u64| Step { gate: Key { site: "voting.job.begin", a: s, b: ANY }, done: Some(Key { site: "voting.result.send", a: s, b: ANY }) };
            let disp = |s: u64| Step { gate: Key { site: "batch.scene.dispatched", a: s, b: ANY }, done: None };
            let kind = c.choices[choice_pos % c.choices.len().max(1)] % 4;
            choice_pos += 1;
            match kind {
                // every voting job completes before the next scene is dispatched
                0 => {
                    for _ in 0..m {
                        events.push(disp(ANY));
                        events.push(job(ANY));
                    }
                }
                // all scenes dispatched first, then the jobs one after the other
                1 => {
                    for _ in 0..m {
                        events.push(disp(ANY));
                    }
                    for _ in 0..m {
                        events.push(job(ANY));
                    }
                }
                // all scenes dispatched first, then the jobs in a chosen order of scenes
                2 => {
                    for _ in 0..m {
                        events.push(disp(ANY));
                    }
                    let mut pool: Vec<u64> = scenes.clone();
                    while !pool.is_empty() {
                        let ch = c.choices[choice_pos % c.choices.len().max(1)] as usize;
                        choice_pos += 1;
                        events.push(job(pool.remove((ch * pool.len()) >> 16)));
                    }
                }
                // arbitrary permutation of dispatches and jobs (may be causally impossible)
                _ => {
                    let mut pool: Vec<(u8, u64)> = vec![];
                    for s in &scenes {
                        pool.push((0, *s));
                        pool.push((1, *s));
                    }
                    while !pool.is_empty() {
                        let ch = c.choices[choice_pos % c.choices.len().max(1)] as usize;
                        choice_pos += 1;
                        let (k, s) = pool.remove((ch * pool.len()) >> 16);
                        events.push(if k == 0 { disp(s) } else { job(s) });
                    }
                }
            }
            if scenes.len() >= 2 {
                plans_ordering += 1;
            }
            let delays = c.delays.iter().map(|(site, occ, us)| (SITES[*site as usize % SITES.len()], *occ as u32, *us as u32)).collect();
            Some(sched::install(Plan { steps: events, delays, gate_timeout_ms: 40 }))
        } else {
            None
        };

        let pipeline = c.drain_thread.get(bi).copied().unwrap_or(false);
        if c.abandon == Some(bi) {
            for (pbi, p) in pendings.drain(..) {
                let results = p.collect();
                process(pbi, &batches[pbi], results, &tr, &mut got, &mut issued, &mut live, false)?;
            }
            for (s, _) in b {
                let seen_calls = got.get(s).map(|v| v.len()).unwrap_or(0);
                abandoned_scenes.borrow_mut().entry(*s).or_insert(seen_calls);
            }
            submit_abandoned(&mut tr, b);
            installed_keep = installed;
        } else if pipeline {
            // submit without waiting for the results of this or of earlier pipelined batches
            let delay = if pipelined == 0 { c.slow_consumer_ms as u64 } else { 0 };
            let p = tr.submit_batch_delayed(b, delay).expect("batch tracker");
            pendings.push((bi, p));
            pipelined += 1;
            installed_keep = installed;
        } else {
            // results retrieved by the caller: earlier pipelined batches are collected first
            for (pbi, p) in pendings.drain(..) {
                let results = p.collect();
                process(pbi, &batches[pbi], results, &tr, &mut got, &mut issued, &mut live, false)?;
            }
            let results = tr.predict_batch(b, false);
            if let Some(inst) = installed {
                expired_total += inst.ctl.expired();
                drop(inst);
            }
            process(bi, b, results, &tr, &mut got, &mut issued, &mut live, true)?;
        }
    }
    for (pbi, p) in pendings.drain(..) {
        let results = p.collect();
        process(pbi, &batches[pbi], results, &tr, &mut got, &mut issued, &mut live, false)?;
    }
    if let Some(inst) = installed_keep.take() {
        expired_total += inst.ctl.expired();
        drop(inst);
    }
    // shutdown
    if c.drop_mode == 1 {
        if let Some(b) = batches.iter().rev().find(|b| !b.is_empty()) {
            // submit again and abandon the result handle: the voting threads must cope
            match &mut tr {
                Tracker::BS(t) => {
                    let (mut req, res) = similari::trackers::batch::PredictionBatchRequest::<(similari::utils::bbox::Universal2DBox, Option<i64>)>::new();
                    for (s, d) in b {
                        for x in d {
                            req.add(*s, (x.b.lib(), x.custom));
                        }
                    }
                    drop(res);
                    t.predict(req);
                }
                Tracker::BV(t) => {
                    let (mut req, res) = similari::trackers::batch::PredictionBatchRequest::<similari::prelude::VisualSortObservation>::new();
                    for (s, d) in b {
                        for x in d {
                            req.add(*s, similari::prelude::VisualSortObservation::new(x.feat.as_deref(), x.q, x.b.lib(), x.custom));
                        }
                    }
                    drop(res);
                    t.predict(req);
                }
                _ => {}
            }
        }
    }
    drop(tr);
    // (a) refinement of the simple tracker, scene by scene
    let mut compared = 0usize;
    let mut cut_calls = 0usize;
    for (scene, want) in &ref_records {
        let have = got.get(scene).cloned().unwrap_or_default();
        let lost = abandoned_scenes.borrow().get(scene).copied();
        ensure!(have.len() + lost.is_some() as usize == want.len(), "batch-call-count", "scene {}: {} results from the batch tracker, {} calls of the simple tracker ({} abandoned)", scene, have.len(), want.len(), lost.is_some() as usize);
        let ms = &ref_margins[scene];
        // the comparison of a scene ends at the call whose result was abandoned
        let cut = (0..want.len()).find(|i| ms[*i] < MARGIN).unwrap_or(want.len()).min(lost.unwrap_or(usize::MAX));
        compared += cut;
        if (0..want.len()).any(|i| ms[i] < MARGIN && i <= cut) {
            cut_calls += 1;
        }
        same_up_to_ids(&want[..cut], &have[..cut], &format!("scene {} (simple vs batch tracker)", scene)).map_err(|f| Fail::new(format!("batch-refinement-{}", f.signature), f.msg))?;
    }
    let multi_scene = batches.iter().any(|b| b.len() >= 2);
    let achieved = c.controlled && plans_ordering > 0 && expired_total == 0;
    Ok(CaseOk::new((multi_scene && cfg.voting_shards >= 2 && compared > 0) || (achieved && compared > 0))
        .label(cfg.kind.name())
        .label_if(multi_scene, "multi_scene_batch")
        .label_if(cfg.voting_shards >= 2, "several_voting_threads")
        .label_if(c.controlled, "controlled")
        .label_if(expired_total > 0, "plan_deviation")
        .label_if(achieved, "ordering_plan_achieved")
        .label_if(cut_calls > 0, "cut_at_fragile_call")
        .label_if(pipelined > 0, "pipelined_batches")
        .label_if(pipelined > 0 && c.slow_consumer_ms > 0, "slow_consumer")
        .label_if(c.auto_waste.is_some() && pipelined > 0, "collection_during_pipelining")
        .label_if(c.abandon.is_some() && !abandoned_scenes.borrow().is_empty(), "result_abandoned_mid_history")
        .label_if(c.drop_mode == 1, "dropped_with_abandoned_result"))
}

pub fn batch_case(kind: Kind) -> impl Strategy<Value = BatchCase> {
    (
        history_opts(kind, false, 2, false),
        1usize..=5,
        proptest::collection::vec((proptest::collection::vec((0usize..5, proptest::bool::weighted(0.75), proptest::collection::vec((0usize..6, proptest::bool::weighted(0.85), -0.05f32..0.05, -0.05f32..0.05, 0.3f32..1.0, proptest::bool::weighted(0.85), prop_oneof![1 => Just(None), 4 => (0.0f32..1.0).prop_map(Some)]), 0..6)), 1..6), any::<bool>()), 1..14),
        proptest::collection::vec(any::<u16>(), 32),
        proptest::collection::vec((0u8..6, 0u8..12, 0u16..3000), 0..5),
        proptest::bool::weighted(0.8),
        0u8..2,
        prop_oneof![2 => Just(None), 1 => Just(Some(0usize)), 1 => Just(Some(1usize)), 1 => Just(Some(2usize))],
        prop_oneof![3 => Just(None), 1 => (0usize..10).prop_map(Some)],
    )
        .prop_map(|(h, nscenes, raw, choices, delays, controlled, drop_mode, auto_waste, abandon)| {
            let scene_ids = [0u64, 7, 1_000_000_007, 3, 42];
            let mut clock = [0u16; 5];
            let mut uniq = 0u32;
            let mut batches = vec![];
            let mut drain_thread = vec![];
            for (scenes, dt) in raw {
                let mut b: Vec<(u64, Vec<DetSpec>)> = vec![];
                for (s, present, dets) in scenes {
                    let s = s % nscenes;
                    if !present || b.iter().any(|x| x.0 == scene_ids[s]) {
                        continue;
                    }
                    clock[s] += 1;
                    let mut specs: Vec<DetSpec> = vec![];
                    for (obj, pres, jx, jy, conf, has_feat, quality) in dets {
                        let obj = obj % h.objs.len().max(1);
                        if !pres || specs.iter().any(|x| x.obj == obj) {
                            continue;
                        }
                        uniq += 1;
                        specs.push(DetSpec { obj, t: clock[s], jx, jy, js: 0.0, conf, has_feat, feat_var: (uniq % 251) as u8, quality, part: (1.0, 0.0) });
                    }
                    if !specs.is_empty() {
                        b.push((scene_ids[s], specs));
                    } else {
                        clock[s] -= 1;
                    }
                }
                batches.push(b);
                drain_thread.push(dt);
            }
            // one case in fifty has a consumer that takes 1.3 s to start reading (derived from the
            // generated material so that the case stays a pure function of it)
            let slow_consumer_ms = if (uniq as usize + choices.len() + batches.len()) % 50 == 7 { 1300 } else { 0 };
            BatchCase { cfg: h.cfg, objs: h.objs, feat_dim: h.feat_dim, batches, drain_thread, choices, delays, controlled, drop_mode, auto_waste, abandon, slow_consumer_ms }
        })
}

/// Many scenes per batch, every detection opening a new track: the voting threads allocate track
/// ids concurrently for the whole run.
#[derive(Clone, Debug, Serialize, Deserialize)]
pub struct StressCase {
    pub kind: Kind,
    pub shards: usize,
    pub voting_shards: usize,
    pub scenes: usize,
    pub dets: usize,
    pub batches: usize,
    /// per detection jitter source
    pub salt: u32,
}

pub fn stress_case() -> impl Strategy<Value = StressCase> {
    (prop_oneof![3 => Just(Kind::BatchSort), 1 => Just(Kind::BatchVisualSort)], 1usize..=4, 2usize..=6, 4usize..=16, 4usize..=24, 10usize..=40, any::<u32>())
        .prop_map(|(kind, shards, voting_shards, scenes, dets, batches, salt)| StressCase { kind, shards, voting_shards, scenes, dets, batches, salt })
}

pub fn check_stress(c: &StressCase) -> CaseResult {
    let cfg = Cfg { kind: c.kind, shards: c.shards, voting_shards: c.voting_shards, history: 2, max_idle: 0, pos: crate::trk::Pos::IoU(0.3), min_conf: 0.05, constraints: None, wp: 0.05, wv: 0.00625, vis: Default::default() };
    let mut tr = Tracker::new(&cfg);
    // expired tracks are collected on every call: the store stays small
    tr.set_auto_waste(0);
    let mut issued: BTreeSet<u64> = BTreeSet::new();
    let mut allocations = 0usize;
    for b in 0..c.batches {
        // disjoint boxes on a grid; every batch uses a fresh region, so no detection overlaps any
        // earlier track and each one opens a new track
        let mut batch = vec![];
        for s in 0..c.scenes {
            let mut dets = vec![];
            for d in 0..c.dets {
                let j = ((c.salt as usize).wrapping_mul(31).wrapping_add(b * 7919 + s * 104729 + d * 1299709) % 1000) as f32 / 100.0;
                dets.push(Det { b: UB { xc: 100.0 * d as f32 + j, yc: 200.0 * b as f32 + j, angle: None, aspect: 1.0, height: 20.0, conf: 1.0 }, custom: Some((b * 1_000_000 + s * 1000 + d) as i64), feat: None, q: None });
            }
            batch.push((s as u64 * 3 + 1, dets));
        }
        let results = tr.predict_batch(&batch, b % 2 == 1);
        ensure!(results.len() == batch.len(), "batch-result-count", "batch {}: {} results for {} scenes", b, results.len(), batch.len());
        let mut scenes_seen = BTreeSet::new();
        for (scene, recs) in &results {
            ensure!(scenes_seen.insert(*scene), "batch-scene-twice", "batch {}: two results for scene {}", b, scene);
            ensure!(recs.len() == c.dets, "batch-record-count", "batch {} scene {}: {} records for {} detections", b, scene, recs.len(), c.dets);
            for r in recs {
                ensure!(r.length == 1, "batch-refinement-differential-record", "batch {} scene {}: a detection that overlaps no earlier track continues track {} (length {})", b, scene, r.id, r.length);
                ensure!(issued.insert(r.id), "batch-id-reused", "batch {} scene {}: new track gets id {} which was issued before", b, scene, r.id);
                allocations += 1;
            }
        }
    }
    drop(tr);
    Ok(CaseOk::new(c.voting_shards >= 2 && c.scenes >= 2 && allocations >= 100).label(c.kind.name()).label_if(allocations >= 5000, "5000_or_more_new_tracks"))
}

pub fn run(env: &Env, rep: &Report) {
    MAX_SHRINK_ITERS.store(200, std::sync::atomic::Ordering::Relaxed);
    rep.set_rule("sequences of up to 13 batches over 1..5 scenes (a scene may be absent from a batch, all scenes replay the same trajectories), distance shards 1..4 and voting shards 1..3, results drained by the caller after predict or by a drainer thread, a plan per batch that totally orders scene dispatch and voting jobs (job begin .. result send) plus delays at store / voting schedule points, and shutdown either after a drained batch or right after abandoning the result handle of one more batch. Oracle: (a) per scene the record sequence equals that of the simple tracker fed the scene's detection lists, bit-equal up to id renaming, cut at calls with a decision margin below 1e-4; (b) exactly batch_size results, one per scene of the batch, records echoing the detections in order, ids fresh and distinct; (c) the case completes (child-process watchdog). Non-trivial: a batch with >= 2 scenes on >= 2 voting threads, or an achieved plan that orders voting jobs against dispatch; distinct = distinct serialized case");
    rep.assume("absence of deadlock for all schedules is NOT established: forced orders are sampled at hook granularity on the real code; a case that does not finish within 120 s is re-run once in a fresh child and only a second time-out is reported as deadlock");
    let pool = IsoPool::new(&env.prop, "batches", std::time::Duration::from_secs(120));
    let check = |c: &BatchCase| -> CaseResult {
        match pool.eval(c) {
            Err(f) if f.signature.starts_with("hang@") => {
                // confirm in a fresh child before calling it a deadlock
                let pool2 = IsoPool::new(&env.prop, "batches", std::time::Duration::from_secs(120));
                match pool2.eval(c) {
                    Err(f2) if f2.signature.starts_with("hang@") => Err(Fail::new("deadlock@batch", format!("the case did not complete within 120 s in two fresh processes: {}", f2.msg))),
                    _ => {
                        rep.mark_inconclusive(format!("a case timed out once and completed on re-run: {}", f.msg));
                        Ok(CaseOk::trivial().label("hang_inconclusive"))
                    }
                }
            }
            r => r,
        }
    };
    let n = env.tier.pick(2_500, 40_000);
    for kind in [Kind::BatchSort, Kind::BatchVisualSort] {
        par_generated(rep, "batches", move || batch_case(kind), n, workers(), &check);
    }
    // concurrent creation of new tracks by all voting threads (fresh ids, one result per scene, completion)
    let spool = IsoPool::new(&env.prop, "id-stress", std::time::Duration::from_secs(120));
    let scheck = |c: &StressCase| -> CaseResult {
        match spool.eval(c) {
            Err(f) if f.signature.starts_with("hang@") => {
                let pool2 = IsoPool::new(&env.prop, "id-stress", std::time::Duration::from_secs(120));
                match pool2.eval(c) {
                    Err(f2) if f2.signature.starts_with("hang@") => Err(Fail::new("deadlock@batch", format!("the case did not complete within 120 s in two fresh processes: {}", f2.msg))),
                    _ => {
                        rep.mark_inconclusive(format!("a case timed out once and completed on re-run: {}", f.msg));
                        Ok(CaseOk::trivial().label("hang_inconclusive"))
                    }
                }
            }
            r => r,
        }
    };
    par_generated(rep, "id-stress", stress_case, env.tier.pick(160, 2_400), workers(), &scheck);
}

pub fn replay(sub: &str, case: Value) -> Option<CaseResult> {
    match sub {
        "batches" => Some(replay_case(case, check_batches, sub)),
        "id-stress" => Some(replay_case(case, check_stress, sub)),
        _ => None,
    }
}
