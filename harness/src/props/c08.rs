//! C08 Oriented-box intersection / IoU / pre-filter against the independent geometry kernel.

use crate::core::*;
use crate::ensure;
use crate::gen::boxes::*;
use crate::oracle::geom;
use geo::Area;
use proptest::prelude::*;
use serde::{Deserialize, Serialize};
use serde_json::Value;
use similari::track::ObservationAttributes;
use similari::trackers::visual_sort::observation_attributes::VisualObservationAttributes;
use similari::utils::bbox::{BoundingBox, Universal2DBox};

/// relative tolerance on intersection areas (fraction of the smaller box area); the worst
/// deviation measured on 1.2 M adversarial pairs was 4e-6
pub const AREA_TOL: f64 = 1e-4;
pub const IOU_TOL: f64 = 2e-4;

fn kind_label(k: PairKind) -> &'static str {
    match k {
        PairKind::General => "general",
        PairKind::Touching => "touching",
        PairKind::Nested => "nested",
        PairKind::Identical => "identical",
        PairKind::EdgeSharing => "edge_sharing",
        PairKind::Concentric => "concentric",
        PairKind::Far => "far",
    }
}

fn rotated(b: &UB) -> bool {
    b.angle.map(|a| a != 0.0).unwrap_or(false)
}

pub fn check_pair(p: &BoxPair) -> CaseResult {
    let (a, b) = (p.a.lib(), p.b.lib());
    let (ra, rb) = (p.a.rbox(), p.b.rbox());
    let amin = ra.area().min(rb.area());
    let ref_i = geom::intersection_area(&ra, &rb);
    let ref_i2 = geom::intersection_area(&rb, &ra);
    // the oracle itself must be symmetric (self-check of the kernel)
    ensure!(
        (ref_i - ref_i2).abs() <= 1e-6 * amin + 1e-12,
        "oracle-asymmetric",
        "reference kernel asymmetric: {} vs {}",
        ref_i,
        ref_i2
    );
    let gap = geom::sat_gap(&ra, &rb);
    let mag = ra.xc.abs().max(ra.yc.abs()).max(rb.xc.abs()).max(rb.yc.abs()) + ra.radius() + rb.radius();
    // The implementation clips in absolute coordinates with the determinant form of the line
    // intersection: its rounding error is ~ eps64 * coord^2 / sin(edge angle) in area units,
    // independent of the box size. The second term covers that for edge angles down to 1e-3 rad;
    // it is negligible (1e-9) at coordinates ~100 and 1e-5 at the 1e4 end of the domain.
    let abs_term = 1e3 * f64::EPSILON * mag * mag;
    let tol = AREA_TOL * amin + abs_term;
    let gap_eps = 1e-7 * mag;
    let clearly_overlap = ref_i > tol;
    let clearly_apart = gap > gap_eps;
    let band = !clearly_overlap && !clearly_apart;

    // 1. intersection area, both argument orders
    let i_ab = Universal2DBox::intersection(&a, &b);
    let i_ba = Universal2DBox::intersection(&b, &a);
    ensure!(i_ab.is_finite() && i_ab >= 0.0 && i_ba.is_finite() && i_ba >= 0.0, "intersection-range",
        "intersection not a finite non-negative number: {} {}", i_ab, i_ba);
    ensure!((i_ab - ref_i).abs() <= tol, "intersection-value",
        "intersection(a,b)={} but reference={} (tol {})", i_ab, ref_i, tol);
    ensure!((i_ba - ref_i).abs() <= tol, "intersection-value",
        "intersection(b,a)={} but reference={} (tol {})", i_ba, ref_i, tol);
    if clearly_apart {
        ensure!(i_ab == 0.0 && i_ba == 0.0, "intersection-separated",
            "boxes separated by gap {} but intersection {} / {}", gap, i_ab, i_ba);
    }

    // 2. raw clipper (no pre-filter), as exposed to Python's intersection_area
    let clip_ab = p.a.lib().sutherland_hodgman_clip(p.b.lib()).unsigned_area();
    let clip_ba = p.b.lib().sutherland_hodgman_clip(p.a.lib()).unsigned_area();
    ensure!((clip_ab - ref_i).abs() <= tol && (clip_ba - ref_i).abs() <= tol, "clip-value",
        "sutherland_hodgman_clip area {} / {} but reference {}", clip_ab, clip_ba, ref_i);

    // 3. IoU of the three ObservationAttributes implementations
    let union = ra.area() + rb.area() - ref_i;
    let ref_iou = ref_i / union;
    let check_iou = |name: &str, v: Option<f32>| -> Result<(), Fail> {
        match v {
            Some(v) => {
                let v = v as f64;
                ensure!(v >= 0.0 && v <= 1.0 + 1e-5, "iou-range", "{}: IoU {} outside [0,1]", name, v);
                ensure!(!clearly_apart, "iou-presence", "{}: IoU {} reported for separated boxes (gap {})", name, v, gap);
                ensure!((v - ref_iou).abs() <= IOU_TOL + abs_term / union, "iou-value", "{}: IoU {} but reference {}", name, v, ref_iou);
            }
            None => {
                ensure!(!clearly_overlap, "iou-presence", "{}: IoU absent but reference intersection {} (IoU {})", name, ref_i, ref_iou);
            }
        }
        Ok(())
    };
    let u_ab = Universal2DBox::calculate_metric_object(&Some(&a), &Some(&b));
    let u_ba = Universal2DBox::calculate_metric_object(&Some(&b), &Some(&a));
    check_iou("Universal2DBox(a,b)", u_ab)?;
    check_iou("Universal2DBox(b,a)", u_ba)?;
    if !band {
        ensure!(u_ab.is_some() == u_ba.is_some(), "iou-symmetry", "IoU presence differs between argument orders: {:?} vs {:?}", u_ab, u_ba);
    }
    if let (Some(x), Some(y)) = (u_ab, u_ba) {
        ensure!((x - y).abs() as f64 <= IOU_TOL + 2.0 * abs_term / union, "iou-symmetry", "IoU(a,b)={} IoU(b,a)={}", x, y);
    }
    let va = VisualObservationAttributes::new(1.0, p.a.lib());
    let vb = VisualObservationAttributes::new(1.0, p.b.lib());
    check_iou("VisualObservationAttributes(a,b)", VisualObservationAttributes::calculate_metric_object(&Some(&va), &Some(&vb)))?;
    check_iou("VisualObservationAttributes(b,a)", VisualObservationAttributes::calculate_metric_object(&Some(&vb), &Some(&va)))?;
    ensure!(Universal2DBox::calculate_metric_object(&None, &Some(&b)).is_none()
        && Universal2DBox::calculate_metric_object(&Some(&a), &None).is_none(), "iou-none-args", "IoU with a missing argument must be absent");

    if p.kind == PairKind::Identical {
        let v = u_ab.unwrap_or(-1.0) as f64;
        ensure!((v - 1.0).abs() <= 1e-5, "iou-identical", "IoU of identical boxes is {:?}", u_ab);
    }

    // 4. closed-form axis-aligned path agrees when neither box is rotated
    if p.a.angle.is_none() && p.b.angle.is_none() {
        let la = BoundingBox::try_from(&a).map_err(|e| Fail::new("ltwh-conversion", format!("{:?}", e)))?;
        let lb = BoundingBox::try_from(&b).map_err(|e| Fail::new("ltwh-conversion", format!("{:?}", e)))?;
        // reference on the BoundingBox's own f32 fields (the conversion is C19's business)
        let rla = geom::RBox { xc: la.left as f64 + la.width as f64 / 2.0, yc: la.top as f64 + la.height as f64 / 2.0, angle: 0.0, w: la.width as f64, h: la.height as f64 };
        let rlb = geom::RBox { xc: lb.left as f64 + lb.width as f64 / 2.0, yc: lb.top as f64 + lb.height as f64 / 2.0, angle: 0.0, w: lb.width as f64, h: lb.height as f64 };
        if la.width > 0.0 && lb.width > 0.0 {
            let ri = geom::intersection_area(&rla, &rlb);
            let bi = BoundingBox::intersection(&la, &lb);
            let cm = la.left.abs().max(la.top.abs()).max(lb.left.abs()).max(lb.top.abs()) + la.width.max(la.height).max(lb.width).max(lb.height);
            let btol = 8.0 * ulp32(cm) as f64 * (la.width.min(lb.width) + la.height.min(lb.height)) as f64 + 1e-5 * rla.area().min(rlb.area());
            ensure!((bi - ri).abs() <= btol, "ltwh-intersection", "BoundingBox::intersection={} reference={} tol={}", bi, ri, btol);
            let biou = BoundingBox::calculate_metric_object(&Some(&la), &Some(&lb)).map(|v| v as f64);
            let riou = ri / (rla.area() + rlb.area() - ri);
            let iou_tol = IOU_TOL + btol / rla.area().min(rlb.area());
            match biou {
                Some(v) => {
                    // f32 corner arithmetic: the range bound is widened by the rounding of the corners
                    ensure!(v >= 0.0 && v <= 1.0 + 1e-5 + iou_tol, "ltwh-iou-range", "BoundingBox IoU {} outside [0,1]", v);
                    ensure!((v - riou).abs() <= iou_tol, "ltwh-iou-value", "BoundingBox IoU {} reference {}", v, riou);
                    // agreement of the two code paths
                    let uv = u_ab.map(|x| x as f64).unwrap_or(0.0);
                    ensure!((uv - v).abs() <= iou_tol + IOU_TOL + 16.0 * ulp32(cm) as f64 / (la.width.min(la.height).min(lb.width).min(lb.height)) as f64,
                        "ltwh-vs-universal", "closed-form IoU {} vs general IoU {}", v, uv);
                }
                None => return Err(Fail::new("ltwh-iou-presence", "BoundingBox IoU absent for two present boxes")),
            }
        }
    }

    // 5. the pre-filter never rejects overlapping boxes
    let tf_ab = Universal2DBox::too_far(&a, &b);
    let tf_ba = Universal2DBox::too_far(&b, &a);
    ensure!(tf_ab == tf_ba, "too-far-symmetry", "too_far differs between argument orders");
    if tf_ab {
        ensure!(ref_i <= 1e-5 * amin, "too-far-unsound", "too_far is true but the boxes overlap by {} (smaller area {})", ref_i, amin);
    }

    let partial = ref_i > tol && ref_i < amin - tol;
    let nontrivial = (partial && (rotated(&p.a) || rotated(&p.b))) || !matches!(p.kind, PairKind::General | PairKind::Far);
    Ok(CaseOk::new(nontrivial)
        .label(kind_label(p.kind))
        .label_if(band, "band")
        .label_if(partial, "partial_overlap")
        .label_if(clearly_apart, "separated")
        .label_if(tf_ab, "too_far")
        .label_if(rotated(&p.a) || rotated(&p.b), "rotated"))
}

// ---------------------------------------------------------------------------------------------
// rigid motions: translate / rotate both boxes together

#[derive(Clone, Debug, Serialize, Deserialize)]
pub struct RigidCase {
    pub a: UB,
    pub b: UB,
    /// translation in units of 2^-8 (exactly representable together with the coordinates)
    pub dx: i32,
    pub dy: i32,
    /// common rotation about the origin
    pub theta: f32,
}

fn grid(v: i32) -> f32 {
    v as f32 / 256.0
}

pub fn rigid_case() -> impl Strategy<Value = RigidCase> {
    let bx = || {
        (-16384i32..16384, -16384i32..16384, angle_any(), 256i32..16384, 256i32..16384)
            .prop_map(|(x, y, ang, w, h)| UB::new(grid(x), grid(y), ang, grid(w) / grid(h), grid(h)))
    };
    (bx(), bx(), -0.9f64..0.9, -0.9f64..0.9, -500_000i32..500_000, -500_000i32..500_000, prop_oneof![Just(0.0f32), -7.0f32..7.0])
        .prop_map(|(a, mut b, fx, fy, dx, dy, theta)| {
            // bring b near a so that the overlap is substantial
            let reach = a.rbox().radius() + b.rbox().radius();
            b.xc = grid(((a.xc as f64 + fx * reach) * 256.0).round() as i32);
            b.yc = grid(((a.yc as f64 + fy * reach) * 256.0).round() as i32);
            RigidCase { a, b, dx, dy, theta }
        })
}

fn moved(b: &UB, dx: f32, dy: f32, theta: f32) -> UB {
    let mut r = *b;
    if theta == 0.0 {
        r.xc = b.xc + dx;
        r.yc = b.yc + dy;
    } else {
        let (s, c) = (theta as f64).sin_cos();
        let x = b.xc as f64 + dx as f64;
        let y = b.yc as f64 + dy as f64;
        r.xc = (x * c - y * s) as f32;
        r.yc = (x * s + y * c) as f32;
        r.angle = Some((b.angle.unwrap_or(0.0) as f64 + theta as f64) as f32);
    }
    r
}

pub fn check_rigid(c: &RigidCase) -> CaseResult {
    let (dx, dy) = (grid(c.dx), grid(c.dy));
    let (a2, b2) = (moved(&c.a, dx, dy, c.theta), moved(&c.b, dx, dy, c.theta));
    let iou = |a: &UB, b: &UB| Universal2DBox::calculate_metric_object(&Some(&a.lib()), &Some(&b.lib()));
    let i0 = iou(&c.a, &c.b);
    let i1 = iou(&a2, &b2);
    let (ra, rb) = (c.a.rbox(), c.b.rbox());
    let ref_i = geom::intersection_area(&ra, &rb);
    let amin = ra.area().min(rb.area());
    let ref_iou = ref_i / (ra.area() + rb.area() - ref_i);
    // rounding of the moved inputs: translation is exact by construction; a rotation rounds the
    // centres (<= 1 ulp of ~4e3) and the angle (1 ulp at its magnitude, lever arm = box radius)
    let minside = (c.a.width().min(c.a.height).min(c.b.width()).min(c.b.height)) as f64;
    let tol = if c.theta == 0.0 {
        1e-5
    } else {
        let cm = a2.xc.abs().max(a2.yc.abs()).max(b2.xc.abs()).max(b2.yc.abs());
        // (the rotated angle is rounded to f32 at its own magnitude: many-turn angles are coarse)
        let am = [c.a.angle, c.b.angle, a2.angle, b2.angle].iter().map(|x| x.unwrap_or(0.0).abs()).fold(16.0f32, f32::max);
        let shift = 2.0 * ulp32(cm) as f64 + ulp32(am) as f64 * (ra.radius() + rb.radius());
        IOU_TOL + 8.0 * shift / minside
    };
    let clearly = ref_i > 1e-3 * amin;
    match (i0, i1) {
        (Some(x), Some(y)) => {
            ensure!((x as f64 - y as f64).abs() <= tol, "rigid-invariance",
                "IoU {} before and {} after a common rigid motion (tol {}, reference {})", x, y, tol, ref_iou);
        }
        (None, None) => {}
        (x, y) => {
            ensure!(!clearly, "rigid-presence", "IoU presence changed under a rigid motion: {:?} vs {:?} (reference {})", x, y, ref_iou);
        }
    }
    Ok(CaseOk::new(clearly && ref_i < amin * 0.999)
        .label(if c.theta == 0.0 { "translation" } else { "rotation" }))
}

// ---------------------------------------------------------------------------------------------
// a box object with a history: vertices generated, then moved / rotated / resized through its
// public fields and methods; the geometry that counts is the current one

#[derive(Clone, Debug, Serialize, Deserialize)]
pub enum BoxEdit {
    GenVertices,
    SetXc(f32),
    SetYc(f32),
    RotateMut(f32),
    SetAngle(Option<f32>),
    SetAspect(f32),
    SetHeight(f32),
    CloneIt,
}

#[derive(Clone, Debug, Serialize, Deserialize)]
pub struct HistoryCase {
    pub a: UB,
    pub b: UB,
    pub edits_a: Vec<BoxEdit>,
    pub edits_b: Vec<BoxEdit>,
}

pub fn apply_edits(b: &UB, edits: &[BoxEdit]) -> (Universal2DBox, UB) {
    apply(b, edits)
}

fn apply(b: &UB, edits: &[BoxEdit]) -> (Universal2DBox, UB) {
    let mut cur = *b;
    let mut l = b.lib();
    for e in edits {
        match e {
            BoxEdit::GenVertices => {
                l.gen_vertices();
            }
            BoxEdit::SetXc(v) => {
                l.xc = *v;
                cur.xc = *v;
            }
            BoxEdit::SetYc(v) => {
                l.yc = *v;
                cur.yc = *v;
            }
            BoxEdit::RotateMut(a) => {
                l.rotate_mut(*a);
                cur.angle = Some(*a);
            }
            BoxEdit::SetAngle(a) => {
                l.angle = *a;
                cur.angle = *a;
            }
            BoxEdit::SetAspect(v) => {
                l.aspect = *v;
                cur.aspect = *v;
            }
            BoxEdit::SetHeight(v) => {
                l.height = *v;
                cur.height = *v;
            }
            BoxEdit::CloneIt => {
                l = l.clone();
            }
        }
    }
    (l, cur)
}

pub fn check_history(c: &HistoryCase) -> CaseResult {
    let (la, ca) = apply(&c.a, &c.edits_a);
    let (lb, cb) = apply(&c.b, &c.edits_b);
    let (ra, rb) = (ca.rbox(), cb.rbox());
    let amin = ra.area().min(rb.area());
    let ref_i = geom::intersection_area(&ra, &rb);
    let mag = ra.xc.abs().max(ra.yc.abs()).max(rb.xc.abs()).max(rb.yc.abs()) + ra.radius() + rb.radius();
    let tol = AREA_TOL * amin + 1e3 * f64::EPSILON * mag * mag;
    let i = Universal2DBox::intersection(&la, &lb);
    ensure!((i - ref_i).abs() <= tol, "history-intersection", "after edits the intersection is {} but the current boxes {:?} / {:?} intersect in {}", i, ca, cb, ref_i);
    let iou = Universal2DBox::calculate_metric_object(&Some(&la), &Some(&lb));
    let ref_iou = ref_i / (ra.area() + rb.area() - ref_i);
    match iou {
        Some(v) => ensure!((v as f64 - ref_iou).abs() <= IOU_TOL + tol / amin, "history-iou", "after edits IoU is {} but the current boxes have IoU {}", v, ref_iou),
        None => ensure!(ref_i <= tol, "history-iou", "after edits IoU is absent but the current boxes intersect in {}", ref_i),
    }
    // the polygon reported for the box is the current one
    let poly = la.get_vertices();
    let area = geo::Area::unsigned_area(&poly);
    ensure!((area - ra.area()).abs() <= 1e-5 * ra.area(), "history-vertices", "get_vertices() has area {} but the box area is {}", area, ra.area());
    // the raw clipper on owned copies
    let clip = la.clone().sutherland_hodgman_clip(lb.clone()).unsigned_area();
    ensure!((clip - ref_i).abs() <= tol, "history-clip", "sutherland_hodgman_clip on copies gives {} but the current boxes intersect in {}", clip, ref_i);
    // ... and on the edited objects themselves (moved into the call, no copy in between)
    let (la2, _) = apply(&c.a, &c.edits_a);
    let (lb2, _) = apply(&c.b, &c.edits_b);
    let clip2 = la2.sutherland_hodgman_clip(lb2).unsigned_area();
    ensure!((clip2 - ref_i).abs() <= tol, "history-clip-moved", "sutherland_hodgman_clip on the edited boxes themselves gives {} but the current boxes intersect in {}", clip2, ref_i);
    // regenerating the vertices after the edits yields the polygon of the current geometry
    let (mut la3, ca3) = apply(&c.a, &c.edits_a);
    la3.gen_vertices();
    if ca3.angle.is_some() {
        match la3.get_cached_vertices() {
            Some(p) => ensure!(*p == la3.get_vertices(), "history-regenerated-vertices", "gen_vertices() after edits keeps a polygon that is not the current one"),
            None => return Err(Fail::new("history-regenerated-vertices", "gen_vertices() left no polygon for a rotated box")),
        }
    }
    let stale_possible = c.edits_a.iter().chain(c.edits_b.iter()).position(|e| matches!(e, BoxEdit::GenVertices)).is_some();
    Ok(CaseOk::new(stale_possible && ref_i > tol).label_if(stale_possible, "vertices_generated_before_edit"))
}

pub fn history_case() -> impl Strategy<Value = HistoryCase> {
    let edit = || {
        prop_oneof![
            3 => Just(BoxEdit::GenVertices),
            2 => (-20.0f32..20.0).prop_map(BoxEdit::SetXc),
            2 => (-20.0f32..20.0).prop_map(BoxEdit::SetYc),
            2 => (-3.2f32..3.2).prop_map(BoxEdit::RotateMut),
            1 => prop_oneof![Just(None), (-3.2f32..3.2).prop_map(Some)].prop_map(BoxEdit::SetAngle),
            1 => (0.3f32..3.0).prop_map(BoxEdit::SetAspect),
            1 => (2.0f32..30.0).prop_map(BoxEdit::SetHeight),
            1 => Just(BoxEdit::CloneIt),
        ]
    };
    let bx = || (-20.0f32..20.0, -20.0f32..20.0, prop_oneof![1 => Just(None), 3 => (-3.2f32..3.2).prop_map(Some)], 0.3f32..3.0, 2.0f32..30.0).prop_map(|(x, y, a, asp, h)| UB::new(x, y, a, asp, h));
    (bx(), bx(), proptest::collection::vec(edit(), 0..6), proptest::collection::vec(edit(), 0..6)).prop_map(|(a, b, edits_a, edits_b)| HistoryCase { a, b, edits_a, edits_b })
}

pub fn run(env: &Env, rep: &Report) {
    stall_watchdog(300);
    rep.set_rule("pairs of valid boxes in constructed configurations (general/touching/nested/identical/edge-sharing/concentric/around bounding-circle reach), angles None/0/k*pi/2/random/|a|>2pi, sizes 0.1..1e3, coordinates to 1e4; rigid motions on a 2^-8 grid. Non-trivial: reference intersection strictly between 0 and the smaller area with >=1 rotated box, or a constructed degenerate configuration; distinct = distinct serialized case");
    rep.assume("reference geometry kernel (oracle/geom.rs, f64, local coordinates) is correct; self-checked for symmetry on every case");
    rep.assume("tolerances: intersection 1e-4 of the smaller area, IoU 2e-4; touching configurations are three-valued (either answer accepted inside the band)");
    let w = workers();
    let n = env.tier.pick(2_400_000, 40_000_000);
    par_generated(rep, "pair", box_pair, n, w, check_pair);
    let n = env.tier.pick(600_000, 10_000_000);
    par_generated(rep, "rigid", rigid_case, n, w, check_rigid);
    par_generated(rep, "edited-boxes", history_case, env.tier.pick(600_000, 10_000_000), w, check_history);
}

pub fn replay(sub: &str, case: Value) -> Option<CaseResult> {
    match sub {
        "pair" => Some(replay_case(case, check_pair, sub)),
        "rigid" => Some(replay_case(case, check_rigid, sub)),
        "edited-boxes" => Some(replay_case(case, check_history, sub)),
        _ => None,
    }
}
