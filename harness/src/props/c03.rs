//! C03 Track lifecycle: conservation, exact expiry, wasted once, GC timing unobservable.

use crate::core::*;
use crate::ensure;
use crate::gen::scenes::{history, history_opts, History, Op};
use crate::props::c01::{iso_check, KINDS};
use crate::props::trkmon::{run_monitored, Flags};
use serde::{Deserialize, Serialize};
use serde_json::Value;

pub fn check_lifecycle(h: &History) -> CaseResult {
    let st = run_monitored(h, Flags { c01: false, c03: true, c13: false, margins: false, group_batches: true })?;
    Ok(CaseOk::new(st.expired_in_store_ops > 0)
        .label(h.cfg.kind.name())
        .label_if(st.wasted_delivered > 0, "wasted_delivered")
        .label_if(st.continuations > 0, "has_continuations"))
}

/// Oracle 2 (metamorphic): the same history under different auto-waste periodicities.
#[derive(Clone, Debug, Serialize, Deserialize)]
pub struct GcCase {
    pub h: History,
    pub periods: Vec<usize>,
}

fn with_period(h: &History, p: usize) -> History {
    let mut g = h.clone();
    g.ops = std::iter::once(Op::SetAutoWaste(p)).chain(h.ops.iter().filter(|o| !matches!(o, Op::SetAutoWaste(_) | Op::ClearWasted)).cloned()).chain(std::iter::once(Op::Wasted)).collect();
    g
}

pub fn check_gc(c: &GcCase) -> CaseResult {
    // exact duplicates make the assignment ambiguous (ties): not comparable between two runs
    for op in &c.h.ops {
        if let Op::Predict { dets, .. } = op {
            for i in 0..dets.len() {
                for j in i + 1..dets.len() {
                    if dets[i].obj == dets[j].obj && dets[i].jx == dets[j].jx && dets[i].jy == dets[j].jy {
                        return Ok(CaseOk::trivial().label("fragile_duplicates"));
                    }
                }
            }
        }
    }
    let flags = Flags { c01: false, c03: true, c13: false, margins: true, group_batches: false };
    let base = run_monitored(&with_period(&c.h, c.periods[0]), flags)?;
    // a call whose outcome is ambiguous (two decisions closer than the margin) may legitimately
    // come out differently in two runs: compare up to that call only
    let cut = base.fragile_at.unwrap_or(usize::MAX);
    let before = |v: &Vec<(usize, Vec<crate::trk::Rec>)>| v.iter().filter(|x| x.0 < cut).cloned().collect::<Vec<_>>();
    let mut differing_gc = false;
    for p in &c.periods[1..] {
        let other = run_monitored(&with_period(&c.h, *p), flags)?;
        if before(&other.records) != before(&base.records) {
            let diff = base.records.iter().zip(other.records.iter()).find(|(a, b)| a != b).map(|(a, b)| {
                let i = a.1.iter().zip(b.1.iter()).position(|(x, y)| x != y);
                format!("op {}: record {:?}: {:?} vs {:?}", a.0, i, i.map(|i| &a.1[i]), i.map(|i| &b.1[i]))
            });
            return Err(Fail::new("c03-gc-observable-records", format!("predict records differ between auto-waste periodicity {} and {}: {:?}", c.periods[0], p, diff)));
        }
        let idle_before = |v: &Vec<(usize, std::collections::BTreeSet<u64>)>| v.iter().filter(|x| x.0 < cut).cloned().collect::<Vec<_>>();
        ensure!(idle_before(&other.idle_sets) == idle_before(&base.idle_sets), "c03-gc-observable-idle", "idle sets differ between auto-waste periodicity {} and {}", c.periods[0], p);
        ensure!(other.epochs == base.epochs, "c03-gc-observable-epochs", "epochs differ between auto-waste periodicity {} and {}", c.periods[0], p);
        ensure!(base.fragile_at.is_some() || other.final_handed == base.final_handed, "c03-gc-observable-handed", "the set of tracks handed out differs between auto-waste periodicity {} ({:?}) and {} ({:?})", c.periods[0], base.final_handed, p, other.final_handed);
        if other.expired_in_store_ops != base.expired_in_store_ops {
            differing_gc = true;
        }
    }
    Ok(CaseOk::new(differing_gc && cut > 3).label(c.h.cfg.kind.name()).label_if(base.fragile_at.is_some(), "cut_at_fragile_call"))
}

pub fn run(env: &Env, rep: &Report) {
    rep.set_rule("interleavings of predict (possibly empty), skip_epochs_for_scene, wasted, idle_tracks_with_scene, clear_wasted, set_auto_waste(0|1|2|100), current_epoch_with_scene and shard statistics over 1..3 scenes, max_idle 0..5, shards 1..4, all four trackers. Oracle 1: monitor model (conservation, exact expiry, wasted exactly once, idle set, places partition by walking every shard of both stores, statistics). Oracle 2 (metamorphic): the same history under auto-waste periodicities 0 / 1 / 100 yields identical records, idle sets, epochs and handed-out set. Non-trivial: an operation issued while an expired track is still physically in the live store (oracle 1); runs whose collection timing actually differed (oracle 2); distinct = distinct serialized history");
    rep.assume("which tracks clear_wasted discards is derived by walking the store of collected tracks right before the call; the split between 'handed out' and 'cleared' is not compared across periodicities");
    let pool = IsoPool::new(&env.prop, "lifecycle", std::time::Duration::from_secs(120));
    let n = env.tier.pick(2_500, 40_000);
    for kind in KINDS {
        par_generated(rep, "lifecycle", move || history(kind, true, 60), n, workers(), iso_check(&pool, rep));
    }
    let pool2 = IsoPool::new(&env.prop, "gc-metamorphic", std::time::Duration::from_secs(120));
    let n = env.tier.pick(1_200, 16_000);
    for kind in KINDS {
        use proptest::prelude::*;
        par_generated(rep, "gc-metamorphic", move || history_opts(kind, true, 40, false).prop_map(|h| GcCase { h, periods: vec![0, 1, 100] }), n, workers(), iso_check(&pool2, rep));
    }
}

pub fn replay(sub: &str, case: Value) -> Option<CaseResult> {
    match sub {
        "lifecycle" => Some(replay_case(case, check_lifecycle, sub)),
        "gc-metamorphic" => Some(replay_case(case, check_gc, sub)),
        _ => None,
    }
}
