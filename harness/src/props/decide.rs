//! Decision oracle over whole histories: before every call the shadow (props/shadow.rs) is
//! computed from the observable pre-call state; after the call every record is checked against
//! it. Serves C02 level B (gated maximum-weight positional assignment), C12 (appearance first,
//! positional fallback, truthful voting type) and C20 (constraints only remove pairs).

use crate::core::*;
use crate::ensure;
use crate::gen::scenes::{History, Op};
use crate::oracle::{assign, geom};
use crate::props::shadow::{shadow_call, CallShadow};
use crate::props::trkmon::MARGIN;
use crate::trk::*;
use std::collections::{BTreeMap, BTreeSet};

#[derive(Default, Debug, Clone)]
pub struct DecStats {
    pub calls: usize,
    pub band_calls: usize,
    pub greedy_suboptimal_calls: usize,
    pub near_gate_calls: usize,
    pub contested_calls: usize,
    pub mixed_calls: usize,
    pub visual_attachments: usize,
    pub positional_attachments: usize,
    pub constraint_removed_pairs: usize,
    pub between_gaps: usize,
    pub records: Vec<(usize, Vec<Rec>)>,
    pub call_margins: Vec<f64>,
}

fn own_areas(cfg: &Cfg, dets: &[Det]) -> Option<Vec<f64>> {
    if cfg.kind.is_visual() && cfg.vis.own_use + cfg.vis.own_collect > 0.0 {
        let rb: Vec<geom::RBox> = dets.iter().map(|d| d.b.rbox()).collect();
        Some((0..rb.len()).map(|i| geom::exclusive_area(&rb, i) / rb[i].area()).collect())
    } else {
        None
    }
}

pub fn run_decisions(h: &History) -> Result<DecStats, Fail> {
    let cfg = &h.cfg;
    let mut tr = Tracker::new(cfg);
    let mut st = DecStats::default();
    let mut epochs: BTreeMap<u64, usize> = BTreeMap::new();
    for (k, op) in h.ops.iter().enumerate() {
        match op {
            Op::Predict { scene, dets } => {
                let dets = h.dets(dets, (k as i64 + 1) * 1000);
                if cfg.kind.is_batch() && dets.is_empty() {
                    continue;
                }
                let e = epochs.get(scene).copied().unwrap_or(0) + 1;
                epochs.insert(*scene, e);
                let views = tr.views(cfg.shards);
                let own = own_areas(cfg, &dets);
                let sh = shadow_call(cfg, &views, *scene, e, &dets, own.as_deref());
                // what the unconstrained tracker would have admitted (C20 non-triviality)
                if cfg.constraints.is_some() {
                    let mut free = cfg.clone();
                    free.constraints = None;
                    let sh0 = shadow_call(&free, &views, *scene, e, &dets, own.as_deref());
                    for i in 0..dets.len() {
                        for c in 0..sh.cols.len() {
                            if sh0.pos[i][c].weight.map(|w| w >= sh.threshold).unwrap_or(false) && sh.pos[i][c].weight.is_none() {
                                st.constraint_removed_pairs += 1;
                            }
                        }
                    }
                }
                let recs = tr.predict(*scene, &dets);
                st.calls += 1;
                ensure!(recs.len() == dets.len(), "decision-record-count", "op {}: {} records for {} detections", k, recs.len(), dets.len());
                check_call(cfg, &sh, &recs, k, &mut st)?;
                // "the track's last estimated box" the next gate is computed against is the box the
                // record reports as estimated (the filter's posterior), not the raw detection: the
                // box stored for matching and the reported one are the same box
                for r in &recs {
                    if let Some(v) = tr.view(r.id) {
                        if let Some(stored) = v.gallery.first().and_then(|g| g.bbox) {
                            ensure!(crate::props::trkmon::same_box(&stored, &r.predicted, 4.0), "decision-matching-box", "op {}: track {} keeps {:?} as the box later detections are matched against, but its record reports {:?} as the estimated box (observed: {:?})", k, r.id, stored, r.predicted, r.observed);
                        }
                    }
                }
                st.records.push((k, recs));
            }
            Op::Skip { scene, n } => {
                tr.skip(*scene, *n);
                *epochs.entry(*scene).or_insert(0) += *n;
            }
            Op::Wasted => {
                tr.wasted();
            }
            Op::Idle { scene } => {
                tr.idle(*scene);
            }
            Op::ClearWasted => tr.clear_wasted(),
            Op::SetAutoWaste(p) => tr.set_auto_waste(*p),
            Op::Epoch { .. } | Op::Stats => {}
        }
    }
    Ok(st)
}

fn check_call(cfg: &Cfg, sh: &CallShadow, recs: &[Rec], k: usize, st: &mut DecStats) -> Result<(), Fail> {
    let n = recs.len();
    let visual_kind = cfg.kind.is_visual();
    let col_of: BTreeMap<u64, usize> = sh.cols.iter().enumerate().map(|(i, id)| (*id, i)).collect();
    let claim_margin = sh.claim_margin();
    let gate_margin = sh.min_gate_margin;
    let band = gate_margin < MARGIN || claim_margin < MARGIN;
    st.call_margins.push(gate_margin.min(claim_margin));
    // continuation target of every detection (None = new track)
    let mut target: Vec<Option<usize>> = vec![];
    for (i, r) in recs.iter().enumerate() {
        if r.length > 1 {
            match col_of.get(&r.id) {
                Some(c) => target.push(Some(*c)),
                None => {
                    return Err(Fail::new(
                        "decision-incompatible-track",
                        format!("op {}: detection {} continues track {} which is not a live track of its scene", k, i, r.id),
                    ))
                }
            }
        } else {
            target.push(None);
        }
    }
    if band {
        st.band_calls += 1;
        return Ok(());
    }
    let taken: BTreeSet<usize> = (0..n).filter(|i| recs[*i].visual && target[*i].is_some()).map(|i| target[i].unwrap()).collect();
    let thr = sh.threshold;
    let mut contested = false;
    let mut positional_rows: Vec<usize> = vec![];
    for i in 0..n {
        let r = &recs[i];
        let has_claim = sh.has_claims(i);
        if !visual_kind {
            ensure!(!r.visual, "decision-voting-type", "op {}: positional tracker reports visual voting for detection {}", k, i);
        }
        match target[i] {
            Some(c) if r.visual => {
                st.visual_attachments += 1;
                // (i) a visual attachment is a valid claim that no other claimant outweighs
                let my = match &sh.claims[i][c] {
                    Some(cl) => cl.weight,
                    None => {
                        return Err(Fail::new(
                            "visual-without-claim",
                            format!("op {}: detection {} is attached to track {} by appearance, but it has no valid appearance claim on it (usable {}, track collected {} features, need {} votes)", k, i, sh.cols[c], sh.usable[i], sh.views[c].collected, cfg.vis.min_votes),
                        ))
                    }
                };
                for j in 0..n {
                    if j != i {
                        if let Some(o) = &sh.claims[j][c] {
                            contested = true;
                            ensure!(o.weight <= my, "visual-lighter-claimant-won", "op {}: track {} went to detection {} (claim weight {}) although detection {} claims it with weight {}", k, sh.cols[c], i, my, j, o.weight);
                        }
                    }
                }
                // ... and it is the detection's own heaviest claim
                for c2 in 0..sh.cols.len() {
                    if c2 != c {
                        if let Some(o) = &sh.claims[i][c2] {
                            ensure!(o.weight <= my, "visual-not-best-claim", "op {}: detection {} is attached by appearance to track {} (weight {}) although its claim on track {} is heavier ({})", k, i, sh.cols[c], my, sh.cols[c2], o.weight);
                        }
                    }
                }
            }
            Some(c) => {
                st.positional_attachments += 1;
                // (ii) positional continuation: claim-free detection, gated pair, untaken track
                ensure!(!has_claim, "positional-despite-claim", "op {}: detection {} has an appearance claim but was attached positionally to track {}", k, i, sh.cols[c]);
                ensure!(!taken.contains(&c), "positional-on-taken-track", "op {}: detection {} attached positionally to track {} which was taken by appearance in the same call", k, i, sh.cols[c]);
                let pw = &sh.pos[i][c];
                ensure!(pw.weight.map(|w| w >= thr - 1e-9).unwrap_or(false), "decision-ungated-pair",
                    "op {}: detection {} continues track {} although the pair does not pass the gate (weight {:?}, threshold {}, reachable {}, epoch gap {}, distance {:.4} radii sums)", k, i, sh.cols[c], pw.weight, thr, pw.reachable, pw.gap, pw.dist_2r);
                positional_rows.push(i);
            }
            None => {
                if has_claim {
                    // a detection with a claim may end as a new track only if it lost its best claim
                    let (bc, bw) = sh.claims[i].iter().enumerate().filter_map(|(c, x)| x.as_ref().map(|x| (c, x.weight))).fold((0usize, f64::NEG_INFINITY), |m, x| if x.1 > m.1 { x } else { m });
                    let heavier = (0..n).any(|j| j != i && sh.claims[j][bc].as_ref().map(|o| o.weight > bw).unwrap_or(false));
                    contested |= heavier;
                    // (iv) an uncontested claim must be honoured
                    ensure!(heavier, "visual-claim-ignored", "op {}: detection {} has an appearance claim on track {} (weight {}) that nobody outweighs, but it started a new track", k, i, sh.cols[bc], bw);
                    ensure!(!r.visual || r.length == 1, "decision-voting-type", "op {}: new track reported with visual voting", k);
                } else {
                    positional_rows.push(i);
                }
            }
        }
        // (vi) voting type is visual exactly for appearance attachments
        if r.length == 1 {
            ensure!(!r.visual, "decision-voting-type", "op {}: detection {} starts a new track but the record reports visual voting", k, i);
        }
    }
    // positional stage: maximum-weight assignment among claim-free detections and untaken tracks
    let cols: Vec<usize> = (0..sh.cols.len()).filter(|c| !taken.contains(c)).collect();
    let cols: Vec<usize> = cols.into_iter().filter(|c| positional_rows.iter().any(|i| sh.pos[*i][*c].weight.map(|w| w > 0.0).unwrap_or(false))).collect();
    if !positional_rows.is_empty() && !cols.is_empty() && cols.len() <= 14 {
        let w = sh.weight_matrix(&positional_rows, &cols);
        let impl_assign: Vec<Option<usize>> = positional_rows.iter().map(|i| target[*i].and_then(|c| cols.iter().position(|x| *x == c))).collect();
        // every continuation of these rows is to one of `cols` (checked above: gated => weight > 0)
        let total = assign::total(&w, thr, &impl_assign);
        let total = match total {
            Some(t) => t,
            None => return Err(Fail::new("decision-not-one-to-one", format!("op {}: positional continuations {:?} are not a one-to-one assignment over reported pairs", k, impl_assign))),
        };
        let (opt, opt_assign) = assign::solve(&w, thr);
        let wmax = w.iter().flatten().flatten().fold(thr, |m, x| m.max(*x));
        let tol = match cfg.pos {
            Pos::IoU(_) => positional_rows.len() as f64 * 1e-5,
            Pos::Maha => positional_rows.len() as f64 * (2e-6 + 2e-3 * wmax),
        };
        ensure!(total >= opt - tol, "positional-suboptimal", "op {}: positional continuations {:?} have total weight {} but {:?} reaches {} (threshold {}; weights {:?})", k, impl_assign, total, opt_assign, opt, thr, w);
        let g1 = assign::total(&w, thr, &assign::greedy_rows(&w, thr)).unwrap();
        let g2 = assign::total(&w, thr, &assign::greedy_best_first(&w, thr)).unwrap();
        if g1 < opt - 10.0 * tol - 1e-4 || g2 < opt - 10.0 * tol - 1e-4 {
            st.greedy_suboptimal_calls += 1;
        }
        if w.iter().flatten().flatten().any(|x| (x - thr).abs() <= 0.05 * thr.max(0.1)) {
            st.near_gate_calls += 1;
        }
    }
    if contested {
        st.contested_calls += 1;
    }
    if !taken.is_empty() && recs.iter().any(|r| !r.visual && r.length > 1) {
        st.mixed_calls += 1;
    }
    Ok(())
}
