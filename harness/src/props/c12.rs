//! C12 VisualSORT: appearance votes first, positional fallback, truthful voting type.

use crate::core::*;
use crate::gen::scenes::{history, History};
use crate::props::c01::iso_check;
use crate::trk::Kind;
use serde_json::Value;

pub fn check_visual(h: &History) -> CaseResult {
    let st = crate::props::decide::run_decisions(h)?;
    Ok(CaseOk::new(st.contested_calls > 0 || st.mixed_calls > 0)
        .label(h.cfg.kind.name())
        .label_if(st.contested_calls > 0, "contested_track")
        .label_if(st.mixed_calls > 0, "visual_and_positional_in_one_call")
        .label_if(st.visual_attachments > 0, "visual_attachment")
        .label_if(st.positional_attachments > 0, "positional_attachment")
        .label_if(st.band_calls > 0, "band_call")
        .label_if(h.cfg.vis.cosine, "cosine"))
}

pub fn run(env: &Env, rep: &Report) {
    rep.set_rule("VisualSort / BatchVisualSort histories with look-alike objects (shared appearance prototypes), crowds and crossings, missing / low-quality features, duplicates, drop-outs; option combinations: Euclidean / cosine threshold, IoU / Mahalanobis, min votes 1..3, max observations 1..6, minimal track length <= it, use / collect quality, minimal area, own-area shares. Oracle: before every call the appearance claims (usability, votes, weight = sum(largest distance - distance)) and positional weights are re-derived in f64 from the observable galleries and filter states; every record is checked: visual attachment = own heaviest valid claim that no other claimant outweighs; positional attachment = claim-free detection on a gated pair with a track not taken by appearance, maximum-weight among those; an unbeaten claim is honoured; voting type visual exactly for appearance attachments. Non-trivial: a call with >= 2 claimants for one track, or positional and visual attachments in one call; distinct = distinct serialized history");
    rep.assume("calls with a threshold or weight decision closer than 1e-4 are counted as band and not asserted; what happens to a loser's secondary claim is not pinned by the statement and not asserted");
    let pool = IsoPool::new(&env.prop, "visual", std::time::Duration::from_secs(120));
    let n = env.tier.pick(12_000, 120_000);
    for kind in [Kind::VisualSort, Kind::BatchVisualSort] {
        par_generated(rep, "visual", move || history(kind, false, 40), n, workers(), iso_check(&pool, rep));
    }
}

pub fn replay(sub: &str, case: Value) -> Option<CaseResult> {
    match sub {
        "visual" => Some(replay_case(case, check_visual, sub)),
        _ => None,
    }
}
