//! C07 Kalman filters vs the dense f64 textbook filter; SPD covariance; distance; gating.

use crate::core::*;
use crate::ensure;
use crate::gen::boxes::*;
use crate::oracle::kalman::{self, BoxNoise, KState, PointNoise, RefFilter};
use nalgebra::Point2;
use proptest::prelude::*;
use serde::{Deserialize, Serialize};
use serde_json::Value;
use similari::utils::bbox::Universal2DBox;
use similari::utils::kalman::kalman_2d_box::Universal2DBoxKalmanFilter;
use similari::utils::kalman::kalman_2d_point::Point2DKalmanFilter;
use similari::utils::kalman::kalman_2d_point_vec::Vec2DKalmanFilter;
use similari::utils::kalman::{CHI2INV95, CHI2_UPPER_BOUND};
use std::sync::Mutex;

#[derive(Clone, Copy, Debug, Serialize, Deserialize)]
pub struct BStep {
    pub predicts: u8,
    pub update: bool,
    /// displacement in units of the current height
    pub dx: f32,
    pub dy: f32,
    /// multiplicative height change
    pub dh: f32,
    pub da: f32,
    pub dasp: f32,
    /// offset (units of height) of an extra measurement used to probe `distance`
    pub px: f32,
    pub py: f32,
    /// 0 = keep the angle representation, 1 = this measurement has no angle, 2 = it has one
    #[serde(default)]
    pub angle_mode: u8,
}

#[derive(Clone, Debug, Serialize, Deserialize)]
pub struct BoxSeq {
    pub wp: f32,
    pub wv: f32,
    pub init: UB,
    pub extreme: bool,
    pub steps: Vec<BStep>,
}

fn reflect(x: f64, d: f64) -> f64 {
    let mut n = x + d;
    if n < 1.0 {
        n = 1.0 + (1.0 - n);
    }
    if n > 1e4 {
        n = 1e4 - (n - 1e4);
    }
    n.clamp(1.0, 1e4)
}

/// the measurement sequence defined by the case
pub fn measurements(c: &BoxSeq) -> Vec<UB> {
    let mut cur = c.init;
    let h0 = c.init.height as f64;
    let factor = if c.extreme { 1000.0 } else { 10.0 };
    let (hmin, hmax) = ((h0 / factor).max(0.05), (h0 * factor).min(2e3));
    let mut out = vec![];
    for s in &c.steps {
        let h = cur.height as f64;
        let nx = reflect(cur.xc as f64, s.dx as f64 * h);
        let ny = reflect(cur.yc as f64, s.dy as f64 * h);
        let nh = (h * s.dh as f64).clamp(hmin, hmax);
        // mixed histories: rotated measurements followed by measurements without an angle (and back)
        let na = match s.angle_mode {
            1 => None,
            2 => Some((cur.angle.unwrap_or(0.3) as f64 + s.da as f64) as f32),
            _ => cur.angle.map(|a| (a as f64 + s.da as f64) as f32),
        };
        let nasp = (cur.aspect as f64 * s.dasp as f64).clamp(0.1, 10.0);
        cur = UB::new(nx as f32, ny as f32, na, nasp as f32, nh as f32);
        out.push(cur);
    }
    out
}

fn meas_vec(b: &UB) -> Vec<f64> {
    vec![b.xc as f64, b.yc as f64, b.angle.unwrap_or(0.0) as f64, b.aspect as f64, b.height as f64]
}

#[derive(Default, Debug, Clone, Copy)]
pub struct Drift {
    pub pos: f64,
    pub height: f64,
    pub aspect: f64,
    pub angle: f64,
    pub cov: f64,
    pub dist_own: f64,
    pub dist_ref: f64,
    pub asym: f64,
}

pub static MEASURED: Mutex<Drift> = Mutex::new(Drift { pos: 0.0, height: 0.0, aspect: 0.0, angle: 0.0, cov: 0.0, dist_own: 0.0, dist_ref: 0.0, asym: 0.0 });

// tolerances (see DESIGN section 3/C07; >= 5x the worst drift measured inside the regular envelope)
// Measured worst drift of the f32 filter against the f64 reference over 3 x 4000 sequences of the
// regular envelope (height within x10 of its initial value): position 9e-3 h (on top of the
// accumulated rounding of coordinates up to 1e4, ulp 1e-3), height 9e-5 h, aspect 2.6e-6,
// angle 4e-5, covariance 1.4e-2 and its asymmetry 1e-2 of sqrt(P_ii P_jj). The asymmetry is
// inherent in the update P - K^T S K, which never damps the antisymmetric rounding residue
// while the symmetric part shrinks. Tolerances are >= 5x these.
const TOL_POS_H: f64 = 5e-2;
const TOL_POS_ULP: f64 = 16.0;
const TOL_HEIGHT_H: f64 = 1e-3;
const TOL_ASPECT: f64 = 1e-4;
// (1.1e-3 measured when measurements switch between 'no angle' and a rotation of ~1 rad)
const TOL_ANGLE: f64 = 5e-3;
const TOL_COV_REL: f64 = 7e-2;
const TOL_COV_ASYM: f64 = 5e-2;

fn state_from_raw(mean: &[f32], cov: &[f32], n: usize) -> KState {
    KState { n, mean: mean.iter().map(|x| *x as f64).collect(), cov: cov.iter().map(|x| *x as f64).collect() }
}

pub fn check_box_seq(c: &BoxSeq) -> CaseResult {
    let f = Universal2DBoxKalmanFilter::new(c.wp, c.wv);
    let rf = RefFilter::new(BoxNoise { wp: c.wp as f64, wv: c.wv as f64 });
    let init = c.init.lib();
    let mut st = f.initiate(&init);
    let mut rs = rf.initiate(&meas_vec(&c.init));
    let ms = measurements(c);
    let measure = std::env::var("SV_MEASURE").is_ok();
    let mut drift = Drift::default();
    let mut innovations = 0usize;
    let class = if c.extreme { "extreme" } else { "regular" };
    let compare = |st: &similari::utils::kalman::KalmanState<10>, rs: &KState, what: &str, k: usize, drift: &mut Drift| -> Result<(), Fail> {
        let (m, p) = st.verif_raw();
        let h = rs.mean[4].abs().max(1e-3);
        ensure!(m.iter().all(|x| x.is_finite()) && p.iter().all(|x| x.is_finite()), format!("kalman-nonfinite:{}", class), "non-finite state after {} {}", what, k);
        let epos = ((m[0] as f64 - rs.mean[0]).abs() - TOL_POS_ULP * ulp32(m[0]) as f64).max((m[1] as f64 - rs.mean[1]).abs() - TOL_POS_ULP * ulp32(m[1]) as f64).max(0.0) / h;
        let eh = (m[4] as f64 - rs.mean[4]).abs() / h;
        let easp = (m[3] as f64 - rs.mean[3]).abs();
        let eang = (m[2] as f64 - rs.mean[2]).abs();
        drift.pos = drift.pos.max(epos);
        drift.height = drift.height.max(eh);
        drift.aspect = drift.aspect.max(easp);
        drift.angle = drift.angle.max(eang);
        if !measure && !c.extreme {
            ensure!(epos <= TOL_POS_H, format!("kalman-mean-position:{}", class), "after {} {}: position ({}, {}) vs reference ({}, {}), {} heights apart", what, k, m[0], m[1], rs.mean[0], rs.mean[1], epos);
            ensure!(eh <= TOL_HEIGHT_H, format!("kalman-mean-height:{}", class), "after {} {}: height {} vs reference {}", what, k, m[4], rs.mean[4]);
            ensure!(easp <= TOL_ASPECT, format!("kalman-mean-aspect:{}", class), "after {} {}: aspect {} vs reference {}", what, k, m[3], rs.mean[3]);
            // (the f32 drift of the angle grows with its magnitude: an object that keeps turning
            // reaches several radians; seen 5.08e-3 at an angle of 5.18 after 44 steps)
            ensure!(eang <= TOL_ANGLE * (1.0 + rs.mean[2].abs()), format!("kalman-mean-angle:{}", class), "after {} {}: angle {} vs reference {}", what, k, m[2], rs.mean[2]);
        }
        // covariance: symmetric, SPD, close to the reference
        let d = 10;
        let mut sym = vec![0.0f64; d * d];
        for i in 0..d {
            for j in 0..d {
                let (a, b) = (p[i * d + j] as f64, p[j * d + i] as f64);
                sym[i * d + j] = 0.5 * (a + b);
                let scale = ((p[i * d + i] as f64) * (p[j * d + j] as f64)).abs().sqrt();
                let asym = (a - b).abs() / scale.max(1e-30);
                drift.asym = drift.asym.max(asym);
                if !measure && !c.extreme {
                    ensure!(asym <= TOL_COV_ASYM, format!("kalman-cov-asymmetric:{}", class), "after {} {}: covariance entry ({},{}) = {} but ({},{}) = {}", what, k, i, j, a, j, i, b);
                }
                let rscale = (rs.at(i, i) * rs.at(j, j)).sqrt();
                let ec = (a - rs.at(i, j)).abs() / rscale.max(1e-30);
                drift.cov = drift.cov.max(ec);
                if !measure && !c.extreme {
                    ensure!(ec <= TOL_COV_REL, format!("kalman-cov-value:{}", class), "after {} {}: covariance ({},{}) = {} vs reference {} (scale {})", what, k, i, j, a, rs.at(i, j), rscale);
                }
            }
        }
        let piv = kalman::cholesky_min_pivot(&sym, d);
        ensure!(piv > 0.0, format!("kalman-cov-not-spd:{}", class), "after {} {}: covariance is not positive definite (pivot {}); diagonal {:?}; mean {:?}", what, k, piv, (0..d).map(|i| p[i * d + i]).collect::<Vec<_>>(), m);
        Ok(())
    };
    let mut since_update = 0u32;
    for (k, s) in c.steps.iter().enumerate() {
        // regular envelope: never more than 3 predict-only steps in a row (enforced here so that
        // shrinking cannot leave the envelope)
        let do_update = s.update || (!c.extreme && since_update >= 3);
        since_update = if do_update { 0 } else { since_update + 1 };
        for _ in 0..(if c.extreme { s.predicts.max(1) } else { s.predicts.clamp(1, 2) }) {
            st = f.predict(&st);
            rs = rf.predict(&rs);
            compare(&st, &rs, "predict", k, &mut drift)?;
        }
        // distance of the coming measurement and of a displaced probe, before the update
        let m = ms[k];
        let h = m.height;
        let probe = UB::new(m.xc + s.px * h, m.yc + s.py * h, m.angle, m.aspect, m.height);
        for z in [m, probe] {
            let zb = z.lib();
            let d_impl = match guard(|| f.distance(st, &zb)) {
                Ok(d) => d as f64,
                Err((loc, msg)) => return Err(Fail::new(format!("panic@distance:{}:{}", loc, class), format!("distance() panicked at step {} ({}): {}", k, loc, msg))),
            };
            let (mean, cov) = st.verif_raw();
            let own = state_from_raw(&mean, &cov, 5);
            let d_own = rf.distance(&own, &meas_vec(&z));
            let d_ref = rf.distance(&rs, &meas_vec(&z));
            ensure!(d_impl.is_finite() && d_impl >= 0.0, format!("kalman-distance-range:{}", class), "distance {} at step {}", d_impl, k);
            // the f32 innovation z - mean carries up to an ulp of the coordinate
            let std_min = (c.wp as f64 * own.mean[4].abs()).max(1e-9);
            let quant = 4.0 * ulp32(mean[0].abs().max(mean[1].abs())) as f64 / std_min;
            let tol_own = 1e-3 * d_own + 1e-4 + 2.0 * d_own.sqrt() * quant + quant * quant;
            let e_own = ((d_impl - d_own).abs() - (2.0 * d_own.sqrt() * quant + quant * quant)).max(0.0) / (d_own + 0.1);
            drift.dist_own = drift.dist_own.max(e_own);
            let e_ref = (d_impl - d_ref).abs() / (d_ref + 0.5);
            drift.dist_ref = drift.dist_ref.max(e_ref);
            if !measure {
                ensure!((d_impl - d_own).abs() <= tol_own, format!("kalman-distance-own:{}", class), "step {}: distance {} but the squared Mahalanobis distance for the filter's own state is {}", k, d_impl, d_own);
                if !c.extreme {
                    // loose tie to the reference filter's distance (state drift measured in units of
                    // the position std can reach ~2 for the smallest weights); the sharp statement is
                    // the one against the filter's own state above
                    ensure!((d_impl - d_ref).abs() <= 3.0 * (d_ref + 0.5) + 2.0 * d_ref.sqrt() * quant + quant * quant, format!("kalman-distance-ref:{}", class), "step {}: distance {} but the reference filter gives {}", k, d_impl, d_ref);
                }
            }
        }
        if do_update {
            let before = rf.project(&rs).0;
            let z = meas_vec(&m);
            if (0..5).any(|i| (z[i] - before[i]).abs() > 1e-9) {
                innovations += 1;
            }
            st = f.update(&st, &m.lib());
            rs = rf.update(&rs, &z);
            compare(&st, &rs, "update", k, &mut drift)?;
            // the state converts back to a box
            let b = Universal2DBox::try_from(st).map_err(|e| Fail::new("kalman-to-box", format!("{:?}", e)))?;
            ensure!(b.xc == st.verif_raw().0[0] && b.height == st.verif_raw().0[4], "kalman-to-box", "box conversion does not echo the mean");
        }
    }
    if measure && std::env::var("SV_MEASURE_VERBOSE").is_ok() && (drift.pos > 2e-3 || drift.asym > 1e-3 || drift.cov > 0.01) {
        let hs: Vec<f32> = ms.iter().map(|m| m.height).collect();
        let hmin = hs.iter().cloned().fold(f32::MAX, f32::min);
        let hmax = hs.iter().cloned().fold(0.0, f32::max);
        eprintln!("[drift] wp={} wv={} h0={} hmin={} hmax={} steps={} drift={:?}", c.wp, c.wv, c.init.height, hmin, hmax, c.steps.len(), drift);
    }
    if measure {
        let mut g = MEASURED.lock().unwrap();
        g.pos = g.pos.max(drift.pos);
        g.height = g.height.max(drift.height);
        g.aspect = g.aspect.max(drift.aspect);
        g.angle = g.angle.max(drift.angle);
        g.cov = g.cov.max(drift.cov);
        g.dist_own = g.dist_own.max(drift.dist_own);
        g.dist_ref = g.dist_ref.max(drift.dist_ref);
        g.asym = g.asym.max(drift.asym);
    }
    Ok(CaseOk::new(innovations >= 20).label(class).label_if(c.init.angle.is_some(), "rotated"))
}

pub fn box_seq(extreme: bool) -> impl Strategy<Value = BoxSeq> {
    // motion modes: 0 constant, 1 linear, 2 accelerating, 3 jitter, 4 grow, 5 shrink, 6 rotate
    (
        (0.005f32.ln()..0.5f32.ln()).prop_map(|x: f32| x.exp()),
        (0.0005f32.ln()..0.05f32.ln()).prop_map(|x: f32| x.exp()),
        (1.0f32..1e4, 1.0f32..1e4, prop_oneof![Just(None), (-3.2f32..3.2).prop_map(Some)], 0.2f32..4.0, (0.5f32.ln()..300f32.ln()).prop_map(|x: f32| x.exp())),
        (0u8..7, -0.6f32..0.6, -0.6f32..0.6, -0.02f32..0.02, 0.0f32..0.3),
        proptest::collection::vec((prop_oneof![8 => Just(1u8), 1 => Just(2u8), 1 => Just(3u8)], proptest::bool::weighted(0.92), -1.0f32..1.0, -1.0f32..1.0, -1.0f32..1.0, -1.0f32..1.0, (-4.0f32..4.0, -4.0f32..4.0, prop_oneof![40 => Just(0u8), 1 => Just(1u8), 1 => Just(2u8)])), 1..300),
    )
        .prop_map(move |(wp, wv, (x, y, ang, asp, h), (mode, vx, vy, acc, jit), raw)| {
            let init = UB::new(x, y, ang, asp, h);
            let mut steps = vec![];
            let (mut cvx, mut cvy) = match mode { 0 | 3 => (0.0, 0.0), _ => (vx, vy) };
            for (predicts, update, r1, r2, r3, r4, (px, py, angle_mode)) in raw {
                if mode == 2 {
                    cvx = (cvx + acc).clamp(-1.0, 1.0);
                    cvy = (cvy + acc * 0.5).clamp(-1.0, 1.0);
                }
                let j = if mode == 0 { 0.0 } else { jit };
                let dh = match mode {
                    4 => 1.0 + 0.1 * r3.abs(),
                    5 => 1.0 - 0.09 * r3.abs(),
                    0 => 1.0,
                    _ => 1.0 + 0.03 * r3,
                };
                let da = if mode == 6 { 0.05 + 0.02 * r4 } else if mode == 0 { 0.0 } else { 0.01 * r4 };
                steps.push(BStep { predicts, update, dx: cvx + j * r1, dy: cvy + j * r2, dh, da, dasp: if mode == 0 { 1.0 } else { 1.0 + 0.01 * r4 }, px, py, angle_mode: if mode == 0 { 0 } else { angle_mode } });
            }
            BoxSeq { wp, wv, init, extreme, steps }
        })
}

// ---------------------------------------------------------------------------------------------
// stationary object

#[derive(Clone, Debug, Serialize, Deserialize)]
pub struct Stationary {
    pub wp: f32,
    pub wv: f32,
    pub b: UB,
    pub n: usize,
}

pub fn check_stationary(c: &Stationary) -> CaseResult {
    let f = Universal2DBoxKalmanFilter::new(c.wp, c.wv);
    let b = c.b.lib();
    let mut st = f.initiate(&b);
    for k in 0..c.n {
        st = f.predict(&st);
        let (m, _) = st.verif_raw();
        let z = [c.b.xc, c.b.yc, c.b.angle.unwrap_or(0.0), c.b.aspect, c.b.height];
        for i in 0..5 {
            ensure!((m[i] - z[i]).abs() <= 4.0 * ulp32(z[i]), "kalman-stationary", "after {} identical measurements the predicted component {} is {} instead of {}", k, i, m[i], z[i]);
        }
        for i in 5..10 {
            ensure!(m[i].abs() <= 4.0 * ulp32(z[i - 5]), "kalman-stationary", "velocity component {} is {} for a stationary object", i, m[i]);
        }
        st = f.update(&st, &b);
    }
    Ok(CaseOk::new(c.n >= 20))
}

// ---------------------------------------------------------------------------------------------
// point and point-vector filters

#[derive(Clone, Debug, Serialize, Deserialize)]
pub struct PointSeq {
    pub wp: f32,
    pub wv: f32,
    /// several independent points, each with its own trajectory: (start, steps (dx, dy))
    pub points: Vec<((f32, f32), Vec<(f32, f32)>)>,
    pub predicts: Vec<u8>,
    pub updates: Vec<bool>,
}

pub fn check_point_seq(c: &PointSeq) -> CaseResult {
    let f = Point2DKalmanFilter::new(c.wp, c.wv);
    let vf = Vec2DKalmanFilter::new(c.wp, c.wv);
    let rf = RefFilter::new(PointNoise { wp: c.wp as f64, wv: c.wv as f64 });
    let n = c.points.iter().map(|p| p.1.len()).min().unwrap_or(0).min(c.predicts.len()).min(c.updates.len());
    let starts: Vec<Point2<f32>> = c.points.iter().map(|p| Point2::from([p.0 .0, p.0 .1])).collect();
    let mut vs = vf.initiate(&starts);
    let mut ss: Vec<_> = starts.iter().map(|p| f.initiate(p)).collect();
    let mut rs: Vec<KState> = starts.iter().map(|p| rf.initiate(&[p.x as f64, p.y as f64])).collect();
    let mut cur: Vec<(f32, f32)> = c.points.iter().map(|p| p.0).collect();
    // (a point that never moved keeps a state equal to its measurement bit for bit)
    let same = |a: &similari::utils::kalman::KalmanState<4>, b: &similari::utils::kalman::KalmanState<4>| {
        let (ma, ca) = a.verif_raw();
        let (mb, cb) = b.verif_raw();
        ma.iter().zip(mb.iter()).all(|(x, y)| x.to_bits() == y.to_bits()) && ca.iter().zip(cb.iter()).all(|(x, y)| x.to_bits() == y.to_bits())
    };
    let mut innovations = 0;
    for k in 0..n {
        for _ in 0..c.predicts[k].max(1) {
            vs = vf.predict(&vs);
            for i in 0..ss.len() {
                ss[i] = f.predict(&ss[i]);
                rs[i] = rf.predict(&rs[i]);
            }
        }
        let zs: Vec<Point2<f32>> = (0..ss.len())
            .map(|i| {
                let (dx, dy) = c.points[i].1[k];
                cur[i] = (cur[i].0 + dx, cur[i].1 + dy);
                Point2::from([cur[i].0, cur[i].1])
            })
            .collect();
        let vd = vf.distance(&vs, &zs);
        // a slice whose points do not share one history (a point that has just appeared next to
        // older ones, in either order): every entry is still measured with its own state
        {
            let mut mixed = vec![];
            let mut mz = vec![];
            for i in 0..ss.len() {
                let z = Point2::from([zs[i].x + 0.37 * (1.0 + i as f32), zs[i].y - 0.21]);
                let fresh = f.predict(&f.initiate(&zs[i]));
                if (k + i) % 2 == 0 {
                    mixed.push(fresh);
                    mz.push(z);
                    mixed.push(ss[i]);
                    mz.push(z);
                } else {
                    mixed.push(ss[i]);
                    mz.push(z);
                    mixed.push(fresh);
                    mz.push(z);
                }
            }
            let md = vf.distance(&mixed, &mz);
            ensure!(md.len() == mixed.len(), "kalman-vec-independent", "vector distance of {} states has {} entries", mixed.len(), md.len());
            for j in 0..mixed.len() {
                let d = f.distance(&mixed[j], &mz[j]);
                ensure!(d.to_bits() == md[j].to_bits(), "kalman-vec-independent", "step {}: entry {} of a slice of states with different histories has distance {} but the point filter gives {} for that state", k, j, md[j], d);
            }
            // ... and predicted / updated from its own state alone
            let mp = vf.predict(&mixed);
            let mu = vf.update(&mixed, &mz);
            ensure!(mp.len() == mixed.len() && mu.len() == mixed.len(), "kalman-vec-independent", "predict / update of {} states return {} / {} states", mixed.len(), mp.len(), mu.len());
            for j in 0..mixed.len() {
                ensure!(same(&mp[j], &f.predict(&mixed[j])), "kalman-vec-independent", "step {}: entry {} of a slice of states with different histories is not predicted as the point filter predicts that state alone", k, j);
                ensure!(same(&mu[j], &f.update(&mixed[j], &mz[j])), "kalman-vec-independent", "step {}: entry {} of a slice of states with different histories is not updated as the point filter updates that state alone", k, j);
            }
        }
        for i in 0..ss.len() {
            ensure!(same(&vs[i], &ss[i]), "kalman-vec-independent", "vector filter state {} differs from the single-point filter at step {}", i, k);
            let d = match guard(|| f.distance(&ss[i], &zs[i])) {
                Ok(d) => d,
                Err((loc, msg)) => return Err(Fail::new(format!("panic@point-distance:{}", loc), format!("point distance panicked at step {}: {}", k, msg))),
            };
            ensure!(d.to_bits() == vd[i].to_bits(), "kalman-vec-independent", "vector distance {} differs from point distance {}", vd[i], d);
            let (m, p) = ss[i].verif_raw();
            let own = state_from_raw(&m, &p, 2);
            let z = [zs[i].x as f64, zs[i].y as f64];
            let d_own = rf.distance(&own, &z);
            let quant = 4.0 * ulp32(m[0].abs().max(m[1].abs())) as f64 / (c.wp as f64);
            ensure!((d as f64 - d_own).abs() <= 1e-3 * d_own + 1e-4 + 2.0 * d_own.sqrt() * quant + quant * quant, "kalman-point-distance-own", "step {}: point distance {} vs {} for its own state", k, d, d_own);
            // mean against the reference, in units of the position std
            let scale = (c.wp as f64).max(1e-6);
            for j in 0..2 {
                let e = ((m[j] as f64 - rs[i].mean[j]).abs() - 4.0 * ulp32(m[j]) as f64).max(0.0);
                ensure!(e <= 0.02 * scale * (1.0 + k as f64).sqrt() + 1e-3 * (c.points[i].1[..=k].iter().map(|d| d.0.abs().max(d.1.abs()) as f64).fold(0.0, f64::max)), "kalman-point-mean", "step {}: point mean {} vs reference {}", k, m[j], rs[i].mean[j]);
            }
            let mut sym = vec![0.0; 16];
            for a in 0..4 {
                for b in 0..4 {
                    sym[a * 4 + b] = 0.5 * (p[a * 4 + b] as f64 + p[b * 4 + a] as f64);
                }
            }
            ensure!(kalman::cholesky_min_pivot(&sym, 4) > 0.0, "kalman-point-cov-not-spd", "point covariance not positive definite at step {}", k);
        }
        if c.updates[k] {
            innovations += 1;
            vs = vf.update(&vs, &zs);
            for i in 0..ss.len() {
                ss[i] = f.update(&ss[i], &zs[i]);
                rs[i] = rf.update(&rs[i], &[zs[i].x as f64, zs[i].y as f64]);
                let p: Point2<f32> = Point2::from(ss[i]);
                ensure!(p.x == ss[i].verif_raw().0[0], "kalman-point-from", "Point2::from(state) does not echo the mean");
            }
        }
    }
    Ok(CaseOk::new(innovations >= 20).label_if(ss.len() > 1, "vector"))
}

pub fn point_seq() -> impl Strategy<Value = PointSeq> {
    (
        (0.005f32.ln()..0.5f32.ln()).prop_map(|x: f32| x.exp()),
        (0.0005f32.ln()..0.05f32.ln()).prop_map(|x: f32| x.exp()),
        1usize..5,
        1usize..120,
    )
        .prop_flat_map(|(wp, wv, np, len)| {
            (
                Just((wp, wv)),
                proptest::collection::vec(((1.0f32..1e3, 1.0f32..1e3), (-1.0f32..1.0, -1.0f32..1.0), proptest::collection::vec((-1.0f32..1.0, -1.0f32..1.0), len)), np),
                proptest::collection::vec(prop_oneof![8 => Just(1u8), 1 => Just(2u8), 1 => Just(3u8)], len),
                proptest::collection::vec(proptest::bool::weighted(0.9), len),
            )
        })
        .prop_map(|((wp, wv), pts, predicts, updates)| PointSeq {
            wp,
            wv,
            // steps: constant velocity (units of the position std) plus jitter
            // (a fifth of the steps are exactly stationary: measurement = previous measurement)
            points: pts.into_iter().map(|(s, v, js)| (s, js.into_iter().enumerate().map(|(k, j)| if (k as f32 * 0.37 + j.0.abs() * 10.0) % 1.0 < 0.2 { (0.0, 0.0) } else { (wp * (2.0 * v.0 + 0.5 * j.0), wp * (2.0 * v.1 + 0.5 * j.1)) }).collect())).collect(),
            predicts,
            updates,
        })
}

// ---------------------------------------------------------------------------------------------
// cost conversion / gating

#[derive(Clone, Debug, Serialize, Deserialize)]
pub struct CostCase {
    pub d: f32,
}

pub fn check_cost(c: &CostCase) -> CaseResult {
    let d = c.d;
    let mut between = false;
    for (name, dof, direct, inverted) in [
        ("box", 5usize, Universal2DBoxKalmanFilter::calculate_cost(d, false), Universal2DBoxKalmanFilter::calculate_cost(d, true)),
        ("point", 2usize, Point2DKalmanFilter::calculate_cost(d, false), Point2DKalmanFilter::calculate_cost(d, true)),
        ("vec", 2usize, Vec2DKalmanFilter::calculate_cost(&[d], false)[0], Vec2DKalmanFilter::calculate_cost(&[d], true)[0]),
    ] {
        let gate = CHI2INV95[dof - 1];
        ensure!(inverted == CHI2_UPPER_BOUND - direct, format!("cost-inverted-{}", name), "{} filter: inverted cost {} != {} - direct cost {} at d = {}", name, inverted, CHI2_UPPER_BOUND, direct, d);
        if d > gate {
            ensure!(direct == CHI2_UPPER_BOUND && inverted == 0.0, format!("cost-gate-{}", name), "{} filter: d = {} is beyond the 95% gate {} but costs are {} / {}", name, d, gate, direct, inverted);
        } else {
            ensure!(direct == d && inverted == CHI2_UPPER_BOUND - d, format!("cost-gate-{}", name), "{} filter: d = {} is inside the 95% gate {} but costs are {} / {}", name, d, gate, direct, inverted);
        }
        if d > CHI2INV95[1] && d <= CHI2INV95[4] {
            between = true;
        }
    }
    Ok(CaseOk::new(between))
}

pub fn cost_case() -> impl Strategy<Value = CostCase> {
    prop_oneof![
        3 => (0.0f32..200.0),
        3 => (0.0f32..20.0),
        3 => (0usize..9, -3i32..=3).prop_map(|(i, k)| f32::from_bits((CHI2INV95[i].to_bits() as i64 + k as i64) as u32)),
        1 => (0usize..9, -0.01f32..0.01).prop_map(|(i, e)| CHI2INV95[i] + e),
    ]
    .prop_map(|d| CostCase { d })
}

// ---------------------------------------------------------------------------------------------
// the filter as driven by the trackers (configured weights, initiate + predict + update per
// attached detection): the state stored in every track must follow the reference filter

pub fn check_tracker_filter(h: &crate::gen::scenes::History) -> CaseResult {
    use crate::gen::scenes::Op;
    use crate::trk::Tracker;
    let cfg = &h.cfg;
    let mut tr = Tracker::new(cfg);
    // a second tracker of the same kind whose configuration shares exactly one of the two Kalman
    // weights is served by the same thread in between (another camera of the same application):
    // every tracker filters with its own weights
    let mut other_cfg = cfg.clone();
    if h.ops.len() % 2 == 0 { other_cfg.wv = cfg.wv * 2.5 } else { other_cfg.wp = cfg.wp * 0.4 }
    other_cfg.kind = cfg.kind.simple();
    let mut other = Tracker::new(&other_cfg);
    let rf = RefFilter::new(BoxNoise { wp: cfg.wp as f64, wv: cfg.wv as f64 });
    let mut refs: std::collections::BTreeMap<u64, KState> = Default::default();
    let mut updates = 0usize;
    let mut maxlen = 0usize;
    for (k, op) in h.ops.iter().enumerate() {
        match op {
            Op::Predict { scene, dets } => {
                let dets = h.dets(dets, (k as i64 + 1) * 1000);
                if cfg.kind.is_batch() && dets.is_empty() {
                    continue;
                }
                if !dets.is_empty() {
                    let _ = other.predict(*scene, &dets[..1]);
                }
                let recs = tr.predict(*scene, &dets);
                for (i, r) in recs.iter().enumerate() {
                    if i >= dets.len() {
                        break;
                    }
                    let z = meas_vec(&dets[i].b);
                    let prior = match refs.get(&r.id) {
                        Some(s) if r.length > 1 => s.clone(),
                        _ => rf.initiate(&z),
                    };
                    let post = rf.update(&rf.predict(&prior), &z);
                    updates += 1;
                    maxlen = maxlen.max(r.length);
                    let v = match tr.view(r.id) {
                        Some(v) => v,
                        None => continue,
                    };
                    if let Some((m, p)) = &v.state {
                        let hgt = post.mean[4].abs().max(1e-3);
                        for j in 0..2 {
                            let e = ((m[j] as f64 - post.mean[j]).abs() - TOL_POS_ULP * ulp32(m[j]) as f64).max(0.0) / hgt;
                            ensure!(e <= TOL_POS_H, "tracker-filter-mean", "op {}: track {} (length {}): state component {} is {} but the reference filter with the configured weights ({}, {}) gives {}", k, r.id, r.length, j, m[j], cfg.wp, cfg.wv, post.mean[j]);
                        }
                        ensure!((m[4] as f64 - post.mean[4]).abs() / hgt <= TOL_HEIGHT_H, "tracker-filter-mean", "op {}: track {}: height {} vs reference {}", k, r.id, m[4], post.mean[4]);
                        for a in 0..10 {
                            for b in 0..10 {
                                let scale = (post.at(a, a) * post.at(b, b)).sqrt().max(1e-30);
                                let e = (p[a * 10 + b] as f64 - post.at(a, b)).abs() / scale;
                                ensure!(e <= TOL_COV_REL, "tracker-filter-cov", "op {}: track {} (length {}): covariance ({},{}) = {} but the reference filter with the configured weights ({}, {}) gives {}", k, r.id, r.length, a, b, p[a * 10 + b], cfg.wp, cfg.wv, post.at(a, b));
                            }
                        }
                        // the record's predicted box is the posterior mean
                        ensure!((r.predicted.xc - m[0]).abs() <= 2.0 * ulp32(m[0]) && (r.predicted.height - m[4]).abs() <= 2.0 * ulp32(m[4]), "tracker-filter-record", "op {}: record of track {} reports predicted box {:?}, the filter mean is {:?}", k, r.id, r.predicted, &m[..5]);
                    } else {
                        return Err(Fail::new("tracker-filter-no-state", format!("op {}: track {} has no filter state", k, r.id)));
                    }
                    refs.insert(r.id, post);
                }
            }
            Op::Skip { scene, n } => tr.skip(*scene, *n),
            _ => {}
        }
    }
    let custom_weights = (cfg.wp - 0.05).abs() > 1e-6 || (cfg.wv - 0.00625).abs() > 1e-6;
    Ok(CaseOk::new(updates >= 20 && custom_weights).label(cfg.kind.name()).label_if(custom_weights, "custom_weights").label_if(maxlen >= 20, "long_track"))
}

pub fn run(env: &Env, rep: &Report) {
    stall_watchdog(400);
    rep.set_rule("measurement sequences up to 300 steps (constant, linear, accelerating, jittering, growing, shrinking, rotating; coordinates reflected into 1..1e4; 1-3 predicts per step, ~8% updates skipped), weights 0.005..0.5 / 0.0005..0.05, envelope classes regular (height within x30 of the initial) and extreme (x1000); stationary objects; 1..4 independent points for the point / vector filters; distances on and around every chi-square table entry. Non-trivial: >=20 steps with non-zero innovation; for costs a d between the 2-dof and the 5-dof gate; distinct = distinct serialized case");
    rep.assume("reference: dense f64 textbook filter (oracle/kalman.rs) with the library's documented noise model; tolerances: position 5e-3 h + 4 ulp, height 2e-3 h, aspect 1e-4, angle 1e-3, covariance 2% of sqrt(P_ii P_jj), distance 1e-3 relative against the filter's own state");
    let w = workers();
    if std::env::var("SV_MEASURE").is_ok() {
        par_generated(rep, "box-regular", || box_seq(false), env.tier.pick(4_000, 100_000), w, check_box_seq);
        eprintln!("[measure] regular: {:?}", *MEASURED.lock().unwrap());
        *MEASURED.lock().unwrap() = Drift::default();
        par_generated(rep, "box-extreme", || box_seq(true), env.tier.pick(4_000, 100_000), w, check_box_seq);
        eprintln!("[measure] extreme: {:?}", *MEASURED.lock().unwrap());
        return;
    }
    par_generated(rep, "box-regular", || box_seq(false), env.tier.pick(10_000, 200_000), w, check_box_seq);
    par_generated(rep, "box-extreme", || box_seq(true), env.tier.pick(2_000, 50_000), w, check_box_seq);
    par_generated(rep, "stationary", || ((0.005f32..0.5), (0.0005f32..0.05), cmax_class().prop_flat_map(ubox), 1usize..300).prop_map(|(wp, wv, mut b, n)| {
        b.xc = b.xc.abs().max(1.0);
        b.yc = b.yc.abs().max(1.0);
        Stationary { wp, wv, b, n }
    }), env.tier.pick(3_000, 60_000), w, check_stationary);
    par_generated(rep, "points", point_seq, env.tier.pick(4_000, 100_000), w, check_point_seq);
    par_generated(rep, "cost", cost_case, env.tier.pick(60_000, 2_000_000), w, check_cost);
    // the filter inside the trackers (weights taken from the tracker configuration)
    {
        use crate::trk::Kind;
        use proptest::prelude::*;
        let pool = IsoPool::new(&env.prop, "tracker-filter", std::time::Duration::from_secs(120));
        let n = env.tier.pick(800, 12_000);
        for kind in [Kind::Sort, Kind::VisualSort, Kind::BatchSort, Kind::BatchVisualSort] {
            let strat = move || {
                (crate::props::c13::lifetime(kind), prop_oneof![1 => Just((0.05f32, 0.00625f32)), 3 => (0.01f32..0.3, 0.001f32..0.03)]).prop_map(|(mut h, (wp, wv))| {
                    h.cfg.wp = wp;
                    h.cfg.wv = wv;
                    h
                })
            };
            par_generated(rep, "tracker-filter", strat, n, w, crate::props::c01::iso_check(&pool, rep));
        }
    }
}

pub fn replay(sub: &str, case: Value) -> Option<CaseResult> {
    match sub {
        "box-regular" | "box-extreme" => Some(replay_case(case, check_box_seq, sub)),
        "stationary" => Some(replay_case(case, check_stationary, sub)),
        "points" => Some(replay_case(case, check_point_seq, sub)),
        "cost" => Some(replay_case(case, check_cost, sub)),
        "tracker-filter" => Some(replay_case(case, check_tracker_filter, sub)),
        _ => None,
    }
}
