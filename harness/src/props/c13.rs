//! C13 Bounded galleries and histories: newest kept, lowest quality evicted.

use crate::core::*;
use crate::gen::scenes::*;
use crate::props::c01::{iso_check, KINDS};
use crate::props::trkmon::{run_monitored, Flags};
use crate::trk::{Kind, Pos};
use proptest::prelude::*;
use serde_json::Value;

pub fn check_lifetime(h: &History) -> CaseResult {
    let st = run_monitored(h, Flags { c01: false, c03: false, c13: true, margins: false, group_batches: false })?;
    let long = st.max_track_len > h.cfg.history && st.max_track_len > h.cfg.vis.max_obs;
    let nontrivial = if h.cfg.kind.is_visual() { long && st.evictions > 0 && st.rejected_features > 0 } else { long && st.wasted_delivered > 0 };
    Ok(CaseOk::new(nontrivial)
        .label(h.cfg.kind.name())
        .label_if(st.evictions > 0, "eviction")
        .label_if(st.rejected_features > 0, "feature_rejected")
        .label_if(st.band_decisions > 0, "band")
        .label_if(st.wasted_delivered > 0, "wasted_converted"))
}

/// one or two well separated objects followed for up to 300 updates, with a quality pattern
pub fn lifetime(kind: Kind) -> impl Strategy<Value = History> {
    (
        cfg(kind),
        (100.0f32..300.0, 100.0f32..300.0, -3.0f32..3.0, -3.0f32..3.0, 25.0f32..60.0, 25.0f32..60.0),
        1usize..=2,
        2usize..=12,
        0u8..7,
        prop_oneof![2 => 10usize..60, 1 => 60usize..300],
        proptest::collection::vec((0.0f32..1.0, proptest::bool::weighted(0.9), proptest::bool::weighted(0.95), -0.03f32..0.03, -0.03f32..0.03, 0u8..250), 300),
        0.0f32..1.0,
    )
        .prop_map(move |(mut cfg, (x, y, vx, vy, w, h), nobj, feat_dim, qmode, len, raw, qbase)| {
            // a generous positional gate and unit confidence so that the object keeps its track
            cfg.pos = match cfg.pos {
                Pos::IoU(_) => Pos::IoU(0.1),
                p => p,
            };
            cfg.constraints = None;
            cfg.vis.own_use = 0.0;
            cfg.vis.own_collect = if nobj == 1 { 0.0 } else { cfg.vis.own_collect };
            let mut objs = vec![Obj { x0: x, y0: y, vx, vy, ax: 0.0, ay: 0.0, w, h, growth: 0.0, angle: None, omega: 0.0, proto: 0 }];
            if nobj == 2 {
                // the second object is far away, or (with an own-area threshold) a companion that
                // travels with the first one and partly covers it
                if cfg.vis.own_collect > 0.0 && qmode % 2 == 0 {
                    objs.push(Obj { x0: x + 0.45 * w, y0: y + 0.2 * h, vx, vy, ax: 0.0, ay: 0.0, w: w * 0.9, h: h * 1.1, growth: 0.0, angle: Some(0.2), omega: 0.0, proto: 1 });
                } else {
                    objs.push(Obj { x0: x + 900.0, y0: y + 700.0, vx: -vx, vy, ax: 0.0, ay: 0.0, w: h, h: w, growth: 0.0005, angle: Some(0.3), omega: 0.001, proto: 1 });
                }
            }
            let thr = cfg.vis.q_collect;
            let mut ops = vec![];
            for (k, (r, has_feat, present, jx, jy, var)) in raw.iter().take(len).enumerate() {
                let t = (k + 1) as u16;
                let frac = k as f32 / len as f32;
                let quality = match qmode {
                    0 => frac,                                   // increasing
                    1 => 1.0 - frac,                             // decreasing
                    2 => qbase,                                  // constant
                    3 => (thr + (r - 0.5) * 0.2).clamp(0.0, 1.0), // around the collect threshold
                    4 => ((k % 7) as f32) / 6.0,                  // saw tooth with equal values
                    6 => 0.5 + ((k * 7919) % 13) as f32 * 2e-6,   // different but closer than 1e-5
                    _ => *r,
                };
                let mut dets = vec![];
                for (oi, _) in objs.iter().enumerate() {
                    if !*present && oi == 0 {
                        continue;
                    }
                    dets.push(DetSpec { obj: oi, t, jx: *jx, jy: *jy, js: 0.0, conf: 1.0, has_feat: *has_feat, feat_var: var.wrapping_add(oi as u8 * 17), quality: if qmode == 5 && k % 11 == 0 { None } else { Some(quality) }, part: (1.0, 0.0) });
                }
                ops.push(Op::Predict { scene: 0, dets });
            }
            ops.push(Op::Skip { scene: 0, n: cfg.max_idle + 1 });
            ops.push(Op::Wasted);
            History { cfg, objs, feat_dim, ops, scale: 1.0 }
        })
}

pub fn run(env: &Env, rep: &Report) {
    rep.set_rule("track lifetimes of 10..300 updates for one or two well separated objects, history length 1..10, visual_max_observations 1..6 with minimal track length <= it, quality sequences increasing / decreasing / constant / around the collect threshold / saw tooth with equal values / random with absent quality, features present or absent, occasional missed frames; the track is finally expired and converted to WastedSortTrack / WastedVisualSortTrack; plus the general crowded histories of C01 with the same assertions. Oracle: invariant over every update comparing the gallery before and after (bound, collect gate, sub-multiset, lowest quality evicted first, count, newest first and only box) and the observed / predicted / feature histories against the monitor's full log. Non-trivial: a lifetime longer than both bounds with >= 1 eviction and >= 1 rejected feature (VisualSORT) or a converted wasted track (SORT); distinct = distinct serialized history");
    rep.assume("observed-box histories compared within 2 ulp per field; area / own-area collect decisions within 1e-4 / 2e-3 of the threshold accept either outcome");
    let pool = IsoPool::new(&env.prop, "lifetime", std::time::Duration::from_secs(120));
    let n = env.tier.pick(2_500, 30_000);
    for kind in KINDS {
        par_generated(rep, "lifetime", move || lifetime(kind), n, workers(), iso_check(&pool, rep));
    }
    let n = env.tier.pick(2_000, 20_000);
    for kind in KINDS {
        par_generated(rep, "lifetime", move || history(kind, true, 50), n, workers(), iso_check(&pool, rep));
    }
}

pub fn replay(sub: &str, case: Value) -> Option<CaseResult> {
    match sub {
        "lifetime" => Some(replay_case(case, check_lifetime, sub)),
        _ => None,
    }
}
