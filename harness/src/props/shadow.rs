//! Independent re-derivation ("shadow") of what one tracker call may decide, computed in f64
//! from the observable pre-call state (stored tracks read through public accessors) and the
//! detections: compatibility, positional weights (IoU x confidence or gated Mahalanobis cost),
//! VisualSORT appearance claims, and the smallest margin of any decision of the call (used to
//! cut differential comparisons where the outcome is legitimately ambiguous).

use crate::gen::boxes::UB;
use crate::oracle::{assign, geom, kalman};
use crate::trk::*;

pub const CHI2_GATE_5: f64 = 11.070;

#[derive(Clone, Debug)]
pub struct PairW {
    /// pair is compatible (scene, expiry, constraints) and within bounding-circle reach
    pub reachable: bool,
    /// weight that the assignment sees (None = no distance item / gated out in IoU mode)
    pub weight: Option<f64>,
    /// distance of any gate decision of this pair from its threshold (relative units)
    pub gate_margin: f64,
    /// constraint quantities (C20): epoch gap and centre distance in units of the radii sum
    pub gap: usize,
    pub dist_2r: f64,
}

#[derive(Clone, Debug)]
pub struct Claim {
    pub votes: usize,
    pub weight: f64,
}

#[derive(Clone, Debug)]
pub struct CallShadow {
    pub cols: Vec<u64>,
    pub views: Vec<TrackView>,
    pub pos: Vec<Vec<PairW>>,
    /// appearance claims (VisualSORT only): claims[i][k]
    pub claims: Vec<Vec<Option<Claim>>>,
    pub usable: Vec<bool>,
    /// smallest margin of a threshold / usability decision in this call
    pub min_gate_margin: f64,
    pub threshold: f64,
    /// magnitude of the quantities the claim weights are differences of (1 for cosine
    /// similarities, the largest distance of the call for Euclidean distances): the f32 rounding
    /// of a weight is proportional to this, not to the weight itself
    pub weight_scale: f64,
}

pub fn dist_2r(a: &UB, b: &UB) -> f64 {
    let (ra, rb) = (a.rbox(), b.rbox());
    let r = ra.radius() + rb.radius();
    let d = ((ra.xc - rb.xc).powi(2) + (ra.yc - rb.yc).powi(2)).sqrt();
    d / (r * r + 1e-5).sqrt()
}

fn limit_for(constraints: &Option<Vec<(usize, f32)>>, gap: usize) -> Option<f32> {
    let c = constraints.as_ref()?;
    let mut first: std::collections::BTreeMap<usize, f32> = Default::default();
    for (g, l) in c {
        first.entry(*g).or_insert(*l);
    }
    first.range(gap..).next().map(|(_, l)| *l)
}

fn rel_margin(x: f64, thr: f64) -> f64 {
    (x - thr).abs() / thr.abs().max(1e-9)
}

fn euclid(a: &[f32], b: &[f32]) -> f64 {
    let n = a.len().min(b.len());
    (0..n).map(|i| (a[i] as f64 - b[i] as f64).powi(2)).sum::<f64>().sqrt()
}

fn cosine(a: &[f32], b: &[f32]) -> f64 {
    let n = a.len().min(b.len());
    let (mut d, mut na, mut nb) = (0.0, 0.0, 0.0);
    for i in 0..n {
        d += a[i] as f64 * b[i] as f64;
        na += (a[i] as f64).powi(2);
        nb += (b[i] as f64).powi(2);
    }
    d / (na * nb).sqrt()
}

fn pad8(v: &[f32]) -> Vec<f32> {
    let mut p = v.to_vec();
    while p.len() % 8 != 0 {
        p.push(0.0);
    }
    p
}

/// Shadow of one call. `views` = all tracks in the live store before the call, `epoch` = the
/// scene's epoch the call will run at, `own_area` = exclusively-owned shares of the detections
/// when an own-area threshold is configured.
pub fn shadow_call(cfg: &Cfg, views: &[TrackView], scene: u64, epoch: usize, dets: &[Det], own_area: Option<&[f64]>) -> CallShadow {
    let visual = cfg.kind.is_visual();
    let thr = cfg.threshold() as f64;
    let cols: Vec<&TrackView> = views.iter().filter(|v| v.scene == scene).collect();
    let mut min_margin = f64::INFINITY;
    let mut pos = vec![];
    let mut claims: Vec<Vec<Option<Claim>>> = vec![];
    let mut usable = vec![];
    // feature distances that reach the voting engine in this call (for the common maximum)
    let mut all_items: Vec<(usize, usize, f64)> = vec![];
    for (i, d) in dets.iter().enumerate() {
        let mut row = vec![];
        let conf = if d.b.conf < cfg.min_conf { cfg.min_conf } else { d.b.conf } as f64;
        // usability of the detection's feature
        let use_ok = if visual {
            let area = d.b.rbox().area();
            let mut ok = true;
            if cfg.vis.min_area > 0.0 {
                min_margin = min_margin.min(rel_margin(area, cfg.vis.min_area as f64));
                ok &= area >= cfg.vis.min_area as f64;
            }
            let q = d.q.unwrap_or(1.0);
            ok &= q >= cfg.vis.q_use;
            if let Some(oa) = own_area {
                // (the library's share is area / (box area + EPS): lower than the exact fraction by
                // up to EPS / area, which matters for boxes in frame-relative coordinates)
                min_margin = min_margin.min(((oa[i] - cfg.vis.own_use as f64).abs() - 2.0 * 1e-5 / area.max(1e-12)).max(0.0) * 10.0);
                ok &= oa[i] >= cfg.vis.own_use as f64;
            }
            ok && d.feat.is_some()
        } else {
            false
        };
        usable.push(use_ok);
        for (k, v) in cols.iter().enumerate() {
            let gap = (epoch as i64 - v.last_epoch as i64).unsigned_abs() as usize;
            let last_pred = v.predicted.last().cloned().unwrap_or(d.b);
            let d2r = dist_2r(&d.b, &last_pred);
            let mut compatible = gap <= cfg.max_idle;
            if let Some(l) = limit_for(&cfg.constraints, gap) {
                min_margin = min_margin.min(rel_margin(d2r, l as f64));
                compatible &= d2r <= l as f64;
            }
            let mut pw = PairW { reachable: false, weight: None, gate_margin: f64::INFINITY, gap, dist_2r: d2r };
            if compatible {
                // positional part: against the newest gallery entry (the only one with a box)
                if let Some(tb) = v.gallery.first().and_then(|g| g.bbox) {
                    let (rd, rt) = (d.b.rbox(), tb.rbox());
                    let reach = rd.radius() + rt.radius();
                    let cd = ((rd.xc - rt.xc).powi(2) + (rd.yc - rt.yc).powi(2)).sqrt();
                    let reach_margin = rel_margin(cd, reach);
                    if cd <= reach {
                        pw.reachable = true;
                        match cfg.pos {
                            Pos::IoU(_) => {
                                let iou = geom::iou(&rd, &rt);
                                let w = iou * conf;
                                pw.gate_margin = rel_margin(w, thr).min(if iou > 0.0 { reach_margin.max(1e-3) } else { reach_margin });
                                if iou > 0.0 && w >= thr {
                                    pw.weight = Some(w);
                                }
                            }
                            Pos::Maha => {
                                if let Some((m, p)) = &v.state {
                                    let own = kalman::KState { n: 5, mean: m.iter().map(|x| *x as f64).collect(), cov: p.iter().map(|x| *x as f64).collect() };
                                    let rf = kalman::RefFilter::new(kalman::BoxNoise { wp: cfg.wp as f64, wv: cfg.wv as f64 });
                                    let z = [d.b.xc as f64, d.b.yc as f64, d.b.angle.unwrap_or(0.0) as f64, d.b.aspect as f64, d.b.height as f64];
                                    let dd = rf.distance(&own, &z);
                                    pw.gate_margin = rel_margin(dd, CHI2_GATE_5).min(reach_margin);
                                    pw.weight = Some(if dd > CHI2_GATE_5 { 0.0 } else { (100.0 - dd) / conf });
                                }
                            }
                        }
                        if pw.weight.is_some() || matches!(cfg.pos, Pos::IoU(_)) {
                            min_margin = min_margin.min(pw.gate_margin);
                        }
                    } else {
                        min_margin = min_margin.min(reach_margin);
                    }
                }
                // appearance part
                // "the track has collected at least the minimal number of features": counted on the
                // gallery actually stored, not on the track's own counter
                if visual && use_ok && v.gallery.iter().filter(|g| g.feature.is_some()).count() >= cfg.vis.min_track_len {
                    let f = pad8(d.feat.as_ref().unwrap());
                    for g in &v.gallery {
                        if let Some(tf) = &g.feature {
                            let (dist, ok, w) = if cfg.vis.cosine {
                                let c = cosine(&f, tf);
                                (c, c >= cfg.vis.threshold as f64, 1.0 - c)
                            } else {
                                let e = euclid(&f, tf);
                                (e, e <= cfg.vis.threshold as f64, e)
                            };
                            min_margin = min_margin.min(rel_margin(dist, cfg.vis.threshold as f64));
                            if ok {
                                all_items.push((i, k, w));
                            }
                        }
                    }
                }
            }
            row.push(pw);
        }
        pos.push(row);
    }
    if visual {
        let maxd = all_items.iter().fold(-1.0f64, |m, x| m.max(x.2));
        for i in 0..dets.len() {
            let mut row = vec![];
            for k in 0..cols.len() {
                let ws: Vec<f64> = all_items.iter().filter(|x| x.0 == i && x.1 == k).map(|x| x.2).collect();
                row.push(if ws.len() >= cfg.vis.min_votes && !ws.is_empty() { Some(Claim { votes: ws.len(), weight: ws.iter().map(|w| maxd - w).sum() }) } else { None });
            }
            claims.push(row);
        }
    } else {
        claims = vec![vec![None; cols.len()]; dets.len()];
    }
    let weight_scale = if cfg.vis.cosine { 1.0 } else { all_items.iter().fold(0.0f64, |m, x| m.max(x.2.abs())).max(1e-9) };
    CallShadow { cols: cols.iter().map(|v| v.id).collect(), views: cols.into_iter().cloned().collect(), pos, claims, usable, min_gate_margin: min_margin, threshold: thr, weight_scale }
}

impl CallShadow {
    pub fn weight_matrix(&self, rows: &[usize], cols: &[usize]) -> Vec<Vec<Option<f64>>> {
        rows.iter().map(|i| cols.iter().map(|k| self.pos[*i][*k].weight).collect()).collect()
    }

    /// Margin of the purely positional assignment over all detections and tracks: optimum minus
    /// the best assignment that differs in at least one row.
    pub fn positional_margin(&self) -> f64 {
        let rows: Vec<usize> = (0..self.pos.len()).collect();
        let cols: Vec<usize> = (0..self.cols.len()).collect();
        self.margin_for(&rows, &cols)
    }

    pub fn margin_for(&self, rows: &[usize], cols: &[usize]) -> f64 {
        // keep the DP small: only columns with at least one weight
        let cols: Vec<usize> = cols.iter().copied().filter(|k| rows.iter().any(|i| self.pos[*i][*k].weight.map(|w| w > 0.0).unwrap_or(false))).collect();
        if rows.is_empty() || cols.is_empty() {
            return f64::INFINITY;
        }
        if cols.len() > 12 || rows.len() > 12 {
            return 0.0; // too large to certify: treated as fragile
        }
        let w = self.weight_matrix(rows, &cols);
        let (opt, a) = assign::solve(&w, self.threshold);
        let ru = assign::runner_up(&w, self.threshold, &a);
        opt - ru
    }

    /// Smallest margin among appearance decisions: two claimants of one track, or the two best
    /// claims of one detection (relative to the weights).
    pub fn claim_margin(&self) -> f64 {
        // A weight is a sum over the votes of (largest distance of the call - distance): two
        // weights can be told apart only if they differ by more than the f32 rounding of those
        // distances, which scales with the distances (and the number of votes), not with the
        // weights - close look-alikes have weights of 1e-4 that differ by 5e-8 (a "relative
        // margin" of 2.6e-4 that f32 cannot resolve).
        let mut m = f64::INFINITY;
        let n = self.claims.len();
        let k = self.cols.len();
        let scale = self.weight_scale;
        let sep = |a: &Claim, b: &Claim| -> f64 {
            let d = (a.weight - b.weight).abs();
            let rel = d / a.weight.abs().max(b.weight.abs()).max(1e-9);
            let abs = d / (scale * a.votes.max(b.votes).max(1) as f64);
            rel.min(abs)
        };
        for c in 0..k {
            let ws: Vec<&Claim> = (0..n).filter_map(|i| self.claims[i][c].as_ref()).collect();
            for a in 0..ws.len() {
                for b in a + 1..ws.len() {
                    m = m.min(sep(ws[a], ws[b]));
                }
            }
        }
        for i in 0..n {
            let ws: Vec<&Claim> = (0..k).filter_map(|c| self.claims[i][c].as_ref()).collect();
            for a in 0..ws.len() {
                for b in a + 1..ws.len() {
                    m = m.min(sep(ws[a], ws[b]));
                }
            }
        }
        m
    }

    pub fn has_claims(&self, i: usize) -> bool {
        self.claims[i].iter().any(|c| c.is_some())
    }
}
