//! Monitor model of the trackers' observable contract, shared by C01 (output contract),
//! C03 (lifecycle) and C13 (bounded histories). The monitor follows the ids the tracker
//! reports and keeps, per track: scene, length, last update epoch, place, and the full log of
//! attached boxes / reported predictions / features.

use crate::core::*;
use crate::ensure;
use crate::gen::boxes::UB;
use crate::gen::scenes::{History, Op};
use crate::oracle::geom;
use crate::trk::*;
use std::collections::{BTreeMap, BTreeSet};

#[derive(Clone, Copy, Debug, Default)]
pub struct Flags {
    pub c01: bool,
    pub c03: bool,
    pub c13: bool,
    /// compute decision margins before every call (for differential checks)
    pub margins: bool,
    /// batch trackers: submit runs of consecutive predict operations on distinct scenes as one
    /// multi-scene batch (several voting threads at work), alternating the retrieval mode
    pub group_batches: bool,
}

#[derive(Clone, Copy, Debug, PartialEq)]
enum Place {
    Live,
    Handed,
    Cleared,
}

struct MT {
    scene: u64,
    length: usize,
    last: usize,
    place: Place,
    obs_log: Vec<UB>,
    pred_log: Vec<UB>,
    feat_log: Vec<Option<Vec<f32>>>,
}

#[derive(Default, Debug, Clone)]
pub struct MonStats {
    /// stored own-area shares compared with the reference for detections that are partly covered
    pub own_area_checks_occluded: usize,
    pub crowded_calls: usize,
    pub expired_in_store_ops: usize,
    pub continuations: usize,
    pub wasted_delivered: usize,
    pub predict_calls: usize,
    pub max_track_len: usize,
    pub records: Vec<(usize, Vec<Rec>)>,
    pub final_handed: BTreeSet<u64>,
    pub idle_sets: Vec<(usize, BTreeSet<u64>)>,
    pub epochs: Vec<(usize, usize)>,
    /// first operation whose outcome is ambiguous (a decision margin below 1e-4)
    pub fragile_at: Option<usize>,
    pub min_margin: f64,
    /// (scene, margin) of every executed predict call, in call order (only with `margins`)
    pub call_margins: Vec<(u64, f64)>,
    pub plans: usize,
    pub plan_expired: usize,
    pub wasted_sets: Vec<(usize, BTreeSet<u64>)>,
    pub evictions: usize,
    pub rejected_features: usize,
    pub band_decisions: usize,
}

pub const MARGIN: f64 = 1e-4;

/// Smallest decision margin of one call, from the shadow.
pub fn call_margin(cfg: &Cfg, views: &[TrackView], scene: u64, epoch: usize, dets: &[Det]) -> f64 {
    let own: Option<Vec<f64>> = if cfg.kind.is_visual() && cfg.vis.own_use + cfg.vis.own_collect > 0.0 {
        let rb: Vec<geom::RBox> = dets.iter().map(|d| d.b.rbox()).collect();
        Some((0..rb.len()).map(|i| geom::exclusive_area(&rb, i) / rb[i].area()).collect())
    } else {
        None
    };
    let sh = crate::props::shadow::shadow_call(cfg, views, scene, epoch, dets, own.as_deref());
    let mut m = sh.min_gate_margin.min(sh.claim_margin());
    // positional stage: all detections (SORT) / claim-free detections (VisualSORT), against all
    // tracks and against the tracks without appearance claims
    let rows: Vec<usize> = (0..dets.len()).filter(|i| !sh.has_claims(*i)).collect();
    let all_cols: Vec<usize> = (0..sh.cols.len()).collect();
    let free_cols: Vec<usize> = all_cols.iter().copied().filter(|k| (0..dets.len()).all(|i| sh.claims[i][*k].is_none())).collect();
    m = m.min(sh.margin_for(&rows, &all_cols));
    if free_cols.len() != all_cols.len() {
        m = m.min(sh.margin_for(&rows, &free_cols));
        // any subset of claimed tracks may end up taken: certify only small cases
        let claimed: Vec<usize> = all_cols.iter().copied().filter(|k| !free_cols.contains(k)).collect();
        if claimed.len() <= 3 {
            for mask in 1..(1usize << claimed.len()) - 1 {
                let mut cols = free_cols.clone();
                for (b, c) in claimed.iter().enumerate() {
                    if mask & (1 << b) != 0 {
                        cols.push(*c);
                    }
                }
                m = m.min(sh.margin_for(&rows, &cols));
            }
        } else {
            m = 0.0;
        }
    }
    m
}

pub fn same_f32(a: f32, b: f32, ulps: f32) -> bool {
    (a - b).abs() <= ulps * ulp32(a.abs().max(b.abs()))
}

/// field-wise equality within `ulps`; None and Some(0.0) are the same angle
pub fn same_box(a: &UB, b: &UB, ulps: f32) -> bool {
    same_f32(a.xc, b.xc, ulps) && same_f32(a.yc, b.yc, ulps) && same_f32(a.angle.unwrap_or(0.0), b.angle.unwrap_or(0.0), ulps) && same_f32(a.aspect, b.aspect, ulps) && same_f32(a.height, b.height, ulps)
}

fn expired(t: &MT, epoch: usize, max_idle: usize) -> bool {
    t.last + max_idle < epoch
}

/// Runs the history against a fresh tracker, asserting the enabled parts of the contract.
pub fn run_monitored(h: &History, flags: Flags) -> Result<MonStats, Fail> {
    run_monitored_with(h, flags, &mut |_, _| None)
}

/// `before_predict(op index, number of detections)` may install a schedule plan that stays in
/// force for that one predict call.
pub fn run_monitored_with(h: &History, flags: Flags, before_predict: &mut dyn FnMut(usize, usize) -> Option<crate::sched::Installed>) -> Result<MonStats, Fail> {
    let cfg = &h.cfg;
    let mut tr = Tracker::new(cfg);
    let mut tracks: BTreeMap<u64, MT> = BTreeMap::new();
    let mut epochs: BTreeMap<u64, usize> = BTreeMap::new();
    let mut st = MonStats::default();
    st.min_margin = f64::INFINITY;
    let shards = cfg.shards;
    let hist = cfg.history;
    // results of a multi-scene batch that belong to later predict operations
    let mut pending: BTreeMap<usize, Vec<Rec>> = BTreeMap::new();
    let mut pending_before: BTreeMap<usize, BTreeMap<u64, TrackView>> = BTreeMap::new();
    for (k, op) in h.ops.iter().enumerate() {
        let ep = |epochs: &BTreeMap<u64, usize>, s: u64| epochs.get(&s).copied().unwrap_or(0);
        // is some expired track still physically in the live store?
        let expired_in_store = |tr: &Tracker, tracks: &BTreeMap<u64, MT>, epochs: &BTreeMap<u64, usize>| -> bool {
            tr.main_ids(shards).iter().any(|id| tracks.get(id).map(|t| expired(t, ep(epochs, t.scene), cfg.max_idle)).unwrap_or(false))
        };
        match op {
            Op::Predict { scene, dets } => {
                let dets = h.dets(dets, (k as i64 + 1) * 1000);
                if cfg.kind.is_batch() && dets.is_empty() {
                    // the batch API cannot express a call without detections for a scene
                    continue;
                }
                if flags.c03 && expired_in_store(&tr, &tracks, &epochs) {
                    st.expired_in_store_ops += 1;
                }
                // crowding (C01 non-triviality): two detections overlapping each other or one live track
                if flags.c01 && dets.len() >= 2 {
                    let rb: Vec<geom::RBox> = dets.iter().map(|d| d.b.rbox()).collect();
                    let mut crowded = false;
                    'o: for i in 0..rb.len() {
                        for j in i + 1..rb.len() {
                            if geom::intersection_area(&rb[i], &rb[j]) > 0.0 {
                                crowded = true;
                                break 'o;
                            }
                        }
                    }
                    if !crowded {
                        for t in tracks.values().filter(|t| t.place == Place::Live && t.scene == *scene) {
                            if let Some(last) = t.obs_log.last() {
                                let l = last.rbox();
                                if rb.iter().filter(|b| geom::intersection_area(b, &l) > 0.0).count() >= 2 {
                                    crowded = true;
                                    break;
                                }
                            }
                        }
                    }
                    if crowded {
                        st.crowded_calls += 1;
                    }
                }
                if flags.margins {
                    let m = call_margin(cfg, &tr.views(shards), *scene, ep(&epochs, *scene) + 1, &dets);
                    st.min_margin = st.min_margin.min(m);
                    st.call_margins.push((*scene, m));
                    if m < MARGIN && st.fragile_at.is_none() {
                        st.fragile_at = Some(k);
                    }
                }
                // (a call that was executed as part of an earlier multi-scene batch keeps the views
                // taken before that batch)
                let before_views: BTreeMap<u64, TrackView> = if let Some(b) = pending_before.remove(&k) {
                    b
                } else if flags.c13 && cfg.kind.is_visual() {
                    tr.views(shards).into_iter().map(|v| (v.id, v)).collect()
                } else {
                    BTreeMap::new()
                };
                let installed = before_predict(k, dets.len());
                let recs = if let Some(r) = pending.remove(&k) {
                    r
                } else if flags.group_batches && cfg.kind.is_batch() {
                    let mut batch = vec![(*scene, dets.clone())];
                    let mut idxs = vec![k];
                    let mut j = k + 1;
                    while j < h.ops.len() && batch.len() < 4 {
                        match &h.ops[j] {
                            Op::Predict { scene: s2, dets: d2 } => {
                                let dd = h.dets(d2, (j as i64 + 1) * 1000);
                                if dd.is_empty() || batch.iter().any(|b| b.0 == *s2) {
                                    break;
                                }
                                batch.push((*s2, dd));
                                idxs.push(j);
                                j += 1;
                            }
                            _ => break,
                        }
                    }
                    let results = tr.predict_batch(&batch, k % 2 == 1);
                    ensure!(results.len() == batch.len(), "c01-batch-result-count", "op {}: a batch of {} scenes delivered {} results", k, batch.len(), results.len());
                    for (idx, (sc, _)) in idxs.iter().zip(batch.iter()) {
                        let mut it = results.iter().filter(|x| x.0 == *sc);
                        let r = it.next().map(|x| x.1.clone());
                        ensure!(r.is_some() && it.next().is_none(), "c01-batch-result-scene", "op {}: the batch did not deliver exactly one result for scene {}", k, sc);
                        pending.insert(*idx, r.unwrap());
                        if *idx != k {
                            pending_before.insert(*idx, before_views.clone());
                        }
                    }
                    pending.remove(&k).unwrap()
                } else {
                    tr.predict(*scene, &dets)
                };
                if let Some(inst) = installed {
                    st.plan_expired += inst.ctl.expired() as usize;
                    st.plans += 1;
                    drop(inst);
                }
                st.predict_calls += 1;
                let e = ep(&epochs, *scene) + 1;
                epochs.insert(*scene, e);
                if flags.c01 {
                    ensure!(recs.len() == dets.len(), "c01-record-count", "op {}: {} records for {} detections", k, recs.len(), dets.len());
                    ensure!(tr.epoch(*scene) == e, "c01-epoch", "op {}: tracker epoch of scene {} is {} after the call, expected {}", k, scene, tr.epoch(*scene), e);
                }
                let mut seen = BTreeSet::new();
                for (i, r) in recs.iter().enumerate() {
                    if flags.c01 {
                        let d = &dets[i];
                        ensure!(r.custom == d.custom, "c01-order", "op {}: record {} carries custom id {:?}, detection {:?} was submitted at that position", k, i, r.custom, d.custom);
                        ensure!(r.scene == *scene, "c01-scene", "op {}: record {} reports scene {} for a call on scene {}", k, i, r.scene, scene);
                        ensure!(r.epoch == e, "c01-epoch", "op {}: record {} carries epoch {}, the scene's epoch is {}", k, i, r.epoch, e);
                        ensure!(same_box(&r.observed, &d.b, 2.0) && r.observed.conf == d.b.conf, "c01-observed-echo", "op {}: record {} echoes observed box {:?} for detection {:?}", k, i, r.observed, d.b);
                        ensure!(seen.insert(r.id), "c01-duplicate-id", "op {}: track id {} given to two detections of one call", k, r.id);
                    }
                    // attach to the model
                    let fresh = r.length == 1;
                    if fresh {
                        if flags.c01 {
                            ensure!(!tracks.contains_key(&r.id), "c01-id-reused", "op {}: new track gets id {} which was issued before", k, r.id);
                        }
                        tracks.insert(r.id, MT { scene: r.scene, length: 0, last: 0, place: Place::Live, obs_log: vec![], pred_log: vec![], feat_log: vec![] });
                    } else {
                        st.continuations += 1;
                        let t = match tracks.get(&r.id) {
                            Some(t) => t,
                            None => return Err(Fail::new("c01-unknown-track", format!("op {}: record {} continues track {} (length {}) that was never reported before", k, i, r.id, r.length))),
                        };
                        if flags.c01 {
                            ensure!(t.place == Place::Live, "c01-dead-track-continued", "op {}: track {} continued after it was handed out or cleared", k, r.id);
                            ensure!(t.scene == *scene, "c01-cross-scene", "op {}: detection of scene {} attached to track {} of scene {}", k, scene, r.id, t.scene);
                        }
                        if flags.c03 {
                            ensure!(!expired(t, e, cfg.max_idle), "c03-expired-continued", "op {}: track {} last updated at epoch {} continued at epoch {} with max_idle {}", k, r.id, t.last, e, cfg.max_idle);
                        }
                    }
                    let t = tracks.get_mut(&r.id).unwrap();
                    t.length += 1;
                    t.last = e;
                    t.obs_log.push(dets[i].b);
                    t.pred_log.push(r.predicted);
                    t.feat_log.push(dets[i].feat.clone());
                    st.max_track_len = st.max_track_len.max(t.length);
                    if flags.c01 || flags.c03 {
                        ensure!(r.length == t.length, "c01-length", "op {}: track {} reported with length {} after {} attachments", k, r.id, r.length, t.length);
                    }
                    if flags.c01 || flags.c13 {
                        let v = match tr.view(r.id) {
                            Some(v) => v,
                            None => return Err(Fail::new("c01-stored-missing", format!("op {}: track {} of record {} is not in the live store", k, r.id, i))),
                        };
                        if flags.c01 {
                            ensure!(v.scene == r.scene && v.last_epoch == r.epoch && v.length == r.length && v.custom == r.custom && v.observed.last() == Some(&r.observed) && v.predicted.last() == Some(&r.predicted),
                                "c01-stored-mismatch", "op {}: stored track {} ({:?}) disagrees with its record {:?}", k, r.id, (v.scene, v.last_epoch, v.length, v.custom), r);
                        }
                        if flags.c13 {
                            check_histories(&v.observed, &v.predicted, if cfg.kind.is_visual() { Some(&v.features) } else { None }, t, hist, k, "stored")?;
                            if cfg.kind.is_visual() {
                                let own = if cfg.vis.own_use + cfg.vis.own_collect > 0.0 {
                                    let rb: Vec<geom::RBox> = dets.iter().map(|d| d.b.rbox()).collect();
                                    Some(geom::exclusive_area(&rb, i) / rb[i].area())
                                } else {
                                    None
                                };
                                check_gallery(cfg, before_views.get(&r.id), &v, &dets[i], own, fresh, k, &mut st)?;
                            }
                        }
                    }
                }
                st.records.push((k, recs));
            }
            Op::Skip { scene, n } => {
                tr.skip(*scene, *n);
                *epochs.entry(*scene).or_insert(0) += *n;
                if flags.c03 {
                    ensure!(tr.epoch(*scene) == ep(&epochs, *scene), "c03-epoch", "op {}: epoch of scene {} is {} after skipping, expected {}", k, scene, tr.epoch(*scene), ep(&epochs, *scene));
                }
            }
            Op::Epoch { scene } => {
                if flags.c03 || flags.c01 {
                    ensure!(tr.epoch(*scene) == ep(&epochs, *scene), "c03-epoch", "op {}: epoch of scene {} is {}, expected {}", k, scene, tr.epoch(*scene), ep(&epochs, *scene));
                }
                st.epochs.push((k, tr.epoch(*scene)));
            }
            Op::Wasted => {
                if flags.c03 && expired_in_store(&tr, &tracks, &epochs) {
                    st.expired_in_store_ops += 1;
                }
                let got = tr.wasted();
                st.wasted_sets.push((k, got.iter().map(|w| w.id).collect()));
                let want: BTreeSet<u64> = tracks.iter().filter(|(_, t)| t.place == Place::Live && expired(t, ep(&epochs, t.scene), cfg.max_idle)).map(|(id, _)| *id).collect();
                let mut got_ids = BTreeSet::new();
                for w in &got {
                    if flags.c03 {
                        ensure!(got_ids.insert(w.id), "c03-wasted-twice", "op {}: track {} delivered twice by one wasted() call", k, w.id);
                    } else {
                        got_ids.insert(w.id);
                    }
                }
                if flags.c03 {
                    ensure!(got_ids == want, "c03-wasted-set", "op {}: wasted() returned {:?}, the expired tracks not yet handed out are {:?}", k, got_ids, want);
                }
                for w in &got {
                    if let Some(t) = tracks.get_mut(&w.id) {
                        if flags.c03 {
                            ensure!(t.place == Place::Live, "c03-wasted-again", "op {}: track {} handed out again", k, w.id);
                            ensure!(w.length == t.length && w.epoch == t.last && w.scene == t.scene, "c03-wasted-record", "op {}: wasted track {} reports (length {}, epoch {}, scene {}), expected ({}, {}, {})", k, w.id, w.length, w.epoch, w.scene, t.length, t.last, t.scene);
                        }
                        if flags.c13 {
                            check_histories(&w.observed, &w.predicted, w.features.as_ref(), t, hist, k, "wasted")?;
                            ensure!(Some(&w.observed_last) == w.observed.last() && Some(&w.predicted_last) == w.predicted.last(), "c13-wasted-last", "op {}: wasted track {} echoes last boxes that are not the last history entries", k, w.id);
                        }
                        t.place = Place::Handed;
                        st.wasted_delivered += 1;
                    } else if flags.c03 {
                        return Err(Fail::new("c03-wasted-unknown", format!("op {}: wasted() returned unknown track {}", k, w.id)));
                    }
                }
            }
            Op::Idle { scene } => {
                if flags.c03 && expired_in_store(&tr, &tracks, &epochs) {
                    st.expired_in_store_ops += 1;
                }
                let got = tr.idle(*scene);
                let e = ep(&epochs, *scene);
                let want: BTreeSet<u64> = tracks.iter().filter(|(_, t)| t.place == Place::Live && t.scene == *scene && !expired(t, e, cfg.max_idle) && t.last != e).map(|(id, _)| *id).collect();
                let got_ids: BTreeSet<u64> = got.iter().map(|r| r.id).collect();
                if flags.c03 {
                    ensure!(got_ids.len() == got.len(), "c03-idle-duplicate", "op {}: idle tracks list a track twice", k);
                    ensure!(got_ids == want, "c03-idle-set", "op {}: idle_tracks({}) returned {:?}; the unexpired tracks of the scene not updated in epoch {} are {:?}", k, scene, got_ids, e, want);
                    for r in &got {
                        let t = &tracks[&r.id];
                        ensure!(r.length == t.length && r.epoch == t.last && r.scene == t.scene, "c03-idle-record", "op {}: idle record of track {} reports (length {}, epoch {}), expected ({}, {})", k, r.id, r.length, r.epoch, t.length, t.last);
                    }
                }
                st.idle_sets.push((k, got_ids));
            }
            Op::ClearWasted => {
                let in_wasted = tr.wasted_ids(shards);
                tr.clear_wasted();
                for id in &in_wasted {
                    if let Some(t) = tracks.get_mut(id) {
                        t.place = Place::Cleared;
                    }
                }
                if flags.c03 {
                    ensure!(tr.wasted_ids(shards).is_empty(), "c03-clear", "op {}: the store of collected tracks is not empty after clear_wasted", k);
                }
            }
            Op::SetAutoWaste(p) => tr.set_auto_waste(*p),
            Op::Stats => {
                if flags.c03 && expired_in_store(&tr, &tracks, &epochs) {
                    st.expired_in_store_ops += 1;
                }
                if flags.c03 {
                    let main = tr.main_ids(shards);
                    let wasted = tr.wasted_ids(shards);
                    let a = tr.active_stats();
                    let w = tr.wasted_stats();
                    let mut want_a = vec![0usize; shards];
                    for id in &main {
                        want_a[*id as usize % shards] += 1;
                    }
                    let mut want_w = vec![0usize; shards];
                    for id in &wasted {
                        want_w[*id as usize % shards] += 1;
                    }
                    ensure!(a == want_a, "c03-active-stats", "op {}: active_shard_stats {:?} but the live store holds {:?}", k, a, want_a);
                    ensure!(w == want_w, "c03-wasted-stats", "op {}: wasted_shard_stats {:?} but the store of collected tracks holds {:?} (live store {:?})", k, w, want_w, want_a);
                    let live = tracks.values().filter(|t| t.place == Place::Live).count();
                    ensure!(a.iter().sum::<usize>() + w.iter().sum::<usize>() == live, "c03-conservation", "op {}: statistics account for {} tracks, {} are neither handed out nor cleared", k, a.iter().sum::<usize>() + w.iter().sum::<usize>(), live);
                }
            }
        }
        if flags.c03 && pending.is_empty() {
            // every track is in exactly one place
            let main = tr.main_ids(shards);
            let wasted = tr.wasted_ids(shards);
            ensure!(main.is_disjoint(&wasted), "c03-two-places", "op {}: tracks {:?} are in the live store and in the store of collected tracks", k, main.intersection(&wasted).collect::<Vec<_>>());
            let held: BTreeSet<u64> = main.union(&wasted).cloned().collect();
            let live: BTreeSet<u64> = tracks.iter().filter(|(_, t)| t.place == Place::Live).map(|(id, _)| *id).collect();
            ensure!(held == live, "c03-places", "op {}: the tracker holds {:?}; the tracks created and neither handed out nor cleared are {:?}", k, held, live);
            for id in &wasted {
                let t = &tracks[id];
                ensure!(expired(t, ep(&epochs, t.scene), cfg.max_idle), "c03-collected-unexpired", "op {}: unexpired track {} was moved to the store of collected tracks", k, id);
            }
        }
    }
    st.final_handed = tracks.iter().filter(|(_, t)| t.place != Place::Live).map(|(id, _)| *id).collect();
    Ok(st)
}

fn check_histories(observed: &[UB], predicted: &[UB], features: Option<&Vec<Option<Vec<f32>>>>, t: &MT, hist: usize, k: usize, what: &str) -> Result<(), Fail> {
    let n = t.length.min(hist);
    ensure!(observed.len() == n && predicted.len() == n, "c13-history-length", "op {}: {} histories hold {} / {} entries, expected min(length {}, history {})", k, what, observed.len(), predicted.len(), t.length, hist);
    let lo = &t.obs_log[t.obs_log.len() - n..];
    let lp = &t.pred_log[t.pred_log.len() - n..];
    for i in 0..n {
        ensure!(same_box(&observed[i], &lo[i], 2.0), "c13-observed-history", "op {}: {} observed history entry {} is {:?}, expected {:?}", k, what, i, observed[i], lo[i]);
        ensure!(predicted[i] == lp[i], "c13-predicted-history", "op {}: {} predicted history entry {} is {:?}, the record of that update reported {:?}", k, what, i, predicted[i], lp[i]);
    }
    if let Some(f) = features {
        ensure!(f.len() == n, "c13-history-length", "op {}: {} feature history holds {} entries, expected {}", k, what, f.len(), n);
        let lf = &t.feat_log[t.feat_log.len() - n..];
        for i in 0..n {
            let want = lf[i].as_ref().map(|v| {
                let mut p = v.clone();
                while p.len() % 8 != 0 {
                    p.push(0.0);
                }
                p
            });
            ensure!(f[i] == want, "c13-feature-history", "op {}: {} feature history entry {} differs from the submitted feature", k, what, i);
        }
    }
    Ok(())
}

type GKey = (Vec<u32>, u32);

fn gkey(g: &GalleryItem) -> Option<GKey> {
    g.feature.as_ref().map(|f| (f.iter().map(|x| x.to_bits()).collect(), g.quality.to_bits()))
}

/// C13: bounded gallery, collect gate, lowest quality evicted first, truthful count.
fn check_gallery(cfg: &Cfg, before: Option<&TrackView>, after: &TrackView, det: &Det, own_area: Option<f64>, fresh: bool, k: usize, st: &mut MonStats) -> Result<(), Fail> {
    let max = cfg.vis.max_obs;
    let q = det.q.unwrap_or(1.0);
    let nfeat = after.gallery.iter().filter(|g| g.feature.is_some()).count();
    ensure!(nfeat <= max, "c13-gallery-overflow", "op {}: track {} stores {} features, visual_max_observations is {}", k, after.id, nfeat, max);
    ensure!(after.collected == nfeat, "c13-collected-count", "op {}: track {} reports {} collected features but stores {}", k, after.id, after.collected, nfeat);
    ensure!(!after.gallery.is_empty(), "c13-gallery-empty", "op {}: track {} has no class-0 observation after an update", k, after.id);
    // index 0 is the newest entry and the only one with a box
    let newest = &after.gallery[0];
    if let Some(oa) = own_area {
        if oa < 0.98 {
            st.own_area_checks_occluded += 1;
        }
        match newest.own_area {
            // (the library divides by area + EPS: for boxes in frame-relative coordinates the
            // stored share is lower by up to EPS / area - the library's own notion of the share)
            Some(stored) => ensure!((stored as f64 - oa).abs() <= 2e-3 + 2.0 * similari::EPS as f64 / det.b.rbox().area(), "c13-own-area-value", "op {}: track {}: the newest observation is stored with own-area share {} but {} of the detection is uncovered", k, after.id, stored, oa),
            None => return Err(Fail::new("c13-own-area-lost", format!("op {}: track {}: the newest observation carries no own-area share although an own-area threshold is configured", k, after.id))),
        }
    }
    ensure!(newest.bbox.is_some() && newest.quality == q, "c13-newest-first", "op {}: track {}: gallery entry 0 is not the newest observation (quality {} vs {}, box {:?})", k, after.id, newest.quality, q, newest.bbox);
    for (j, g) in after.gallery.iter().enumerate().skip(1) {
        ensure!(g.bbox.is_none(), "c13-old-box-kept", "op {}: track {}: gallery entry {} still carries a box", k, after.id, j);
    }
    let padded = det.feat.as_ref().map(|v| {
        let mut p = v.clone();
        while p.len() % 8 != 0 {
            p.push(0.0);
        }
        p
    });
    let newkey: Option<GKey> = padded.as_ref().map(|f| (f.iter().map(|x| x.to_bits()).collect(), q.to_bits()));
    let new_stored = newest.feature.is_some();
    if fresh {
        // the first observation of a track is its initial state: stored as given
        ensure!(new_stored == det.feat.is_some(), "c13-first-feature", "op {}: new track {} stores feature = {} for a detection with feature = {}", k, after.id, new_stored, det.feat.is_some());
        return Ok(());
    }
    let before = match before {
        Some(b) => b,
        None => return Err(Fail::new("c13-no-prestate", format!("op {}: continued track {} was not in the store before the call", k, after.id))),
    };
    // collect gate (three-valued around computed thresholds)
    let area = det.b.rbox().area();
    let mut band = false;
    let mut collect = det.feat.is_some() && q >= cfg.vis.q_collect;
    if cfg.vis.min_area > 0.0 {
        if (area - cfg.vis.min_area as f64).abs() <= 1e-4 * cfg.vis.min_area as f64 {
            band = true;
        }
        collect &= area >= cfg.vis.min_area as f64;
    }
    if let Some(oa) = own_area {
        if (oa - cfg.vis.own_collect as f64).abs() <= 2e-3 + 2.0 * similari::EPS as f64 / area {
            band = true;
        }
        collect &= oa >= cfg.vis.own_collect as f64;
    }
    if band {
        st.band_decisions += 1;
    } else if det.feat.is_some() {
        ensure!(new_stored == collect, "c13-collect-gate", "op {}: track {}: feature of the continuing detection (quality {}, area {}, own area {:?}) is {} although the collect thresholds say {}", k, after.id, q, area, own_area, if new_stored { "stored" } else { "dropped" }, if collect { "store" } else { "drop" });
        if !collect {
            st.rejected_features += 1;
        }
    } else {
        ensure!(!new_stored, "c13-invented-feature", "op {}: track {} stores a feature for a detection without one", k, after.id);
    }
    if new_stored {
        ensure!(gkey(newest) == newkey, "c13-new-feature-value", "op {}: track {}: the newest stored feature is not the submitted one", k, after.id);
    }
    // survivors are a sub-multiset of the previous gallery; evicted ones are the lowest quality
    let mut prev: Vec<GKey> = before.gallery.iter().filter_map(gkey).collect();
    let mut survivors: Vec<GKey> = vec![];
    for g in after.gallery.iter().skip(1) {
        if let Some(key) = gkey(g) {
            match prev.iter().position(|p| *p == key) {
                Some(pos) => {
                    survivors.push(prev.remove(pos));
                }
                None => return Err(Fail::new("c13-foreign-feature", format!("op {}: track {} stores a feature that is neither the new one nor one of its previous gallery", k, after.id))),
            }
        } else {
            return Err(Fail::new("c13-featureless-kept", format!("op {}: track {} keeps an old gallery entry without a feature", k, after.id)));
        }
    }
    if !prev.is_empty() {
        st.evictions += 1;
        let worst_evicted = prev.iter().map(|p| f32::from_bits(p.1)).fold(f32::NEG_INFINITY, f32::max);
        for s in &survivors {
            ensure!(f32::from_bits(s.1) >= worst_evicted, "c13-wrong-eviction", "op {}: track {}: a stored feature of quality {} survived while one of quality {} was evicted", k, after.id, f32::from_bits(s.1), worst_evicted);
        }
        // nothing is evicted while there is room
        ensure!(before.gallery.iter().filter(|g| g.feature.is_some()).count() + 1 > max || prev.is_empty(), "c13-early-eviction", "op {}: track {}: {} features evicted although only {} of {} slots were used", k, after.id, prev.len(), before.gallery.iter().filter(|g| g.feature.is_some()).count(), max);
    }
    Ok(())
}
