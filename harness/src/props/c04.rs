//! C04 Scene isolation: the interleaved run against the projection onto each single scene.

use crate::core::*;
use crate::ensure;
use crate::gen::scenes::{history_opts, History, Op};
use crate::props::c01::{iso_check, KINDS};
use crate::props::trkmon::{run_monitored, Flags, MARGIN};
use crate::trk::Rec;
use serde_json::Value;
use std::collections::BTreeMap;

fn scene_of(op: &Op) -> Option<u64> {
    match op {
        Op::Predict { scene, .. } | Op::Skip { scene, .. } | Op::Idle { scene } | Op::Epoch { scene } => Some(*scene),
        _ => None,
    }
}

/// compares two record sequences up to renaming of track ids
pub fn same_up_to_ids(a: &[Vec<Rec>], b: &[Vec<Rec>], what: &str) -> Result<(), Fail> {
    same_up_to_ids_map(a, b, what).map(|_| ())
}

/// ... and the bijection of track ids it was established under (ids of `a` -> ids of `b`)
pub fn same_up_to_ids_map(a: &[Vec<Rec>], b: &[Vec<Rec>], what: &str) -> Result<BTreeMap<u64, u64>, Fail> {
    let mut fwd: BTreeMap<u64, u64> = BTreeMap::new();
    let mut bwd: BTreeMap<u64, u64> = BTreeMap::new();
    for (call, (ra, rb)) in a.iter().zip(b.iter()).enumerate() {
        ensure!(ra.len() == rb.len(), "differential-record-count", "{}: call {} has {} records in one run and {} in the other", what, call, ra.len(), rb.len());
        for (i, (x, y)) in ra.iter().zip(rb.iter()).enumerate() {
            let mut y2 = y.clone();
            y2.id = x.id;
            ensure!(*x == y2, "differential-record", "{}: call {} record {}: {:?} vs {:?}", what, call, i, x, y);
            match (fwd.get(&x.id), bwd.get(&y.id)) {
                (None, None) => {
                    fwd.insert(x.id, y.id);
                    bwd.insert(y.id, x.id);
                }
                (Some(m), Some(n)) if *m == y.id && *n == x.id => {}
                _ => return Err(Fail::new("differential-grouping", format!("{}: call {} record {}: detection joins track {} in one run and track {} in the other, which are not the same track (grouping differs)", what, call, i, x.id, y.id))),
            }
        }
    }
    Ok(fwd)
}

pub fn check_isolation(h: &History) -> CaseResult {
    let flags = Flags { c01: true, c03: false, c13: false, margins: true, group_batches: false };
    // predict / skip of each scene, plus the tracker-wide operations that move the collection of
    // expired tracks around (they must not change any scene's grouping either)
    let mut full = h.clone();
    full.ops.retain(|o| matches!(o, Op::Predict { .. } | Op::Skip { .. } | Op::Wasted | Op::SetAutoWaste(_) | Op::ClearWasted | Op::Idle { .. }));
    let inter = run_monitored(&full, flags)?;
    // batch trackers: the same history once more with the calls of different scenes that follow each
    // other submitted as one batch (scenes then share the batch, the voting workers and their buffers)
    let grouped = if h.cfg.kind.is_batch() { Some(run_monitored(&full, Flags { c01: true, c03: false, c13: false, margins: false, group_batches: true })?) } else { None };
    let scenes: Vec<u64> = {
        let mut v: Vec<u64> = full.ops.iter().filter_map(scene_of).collect();
        v.sort();
        v.dedup();
        v
    };
    let mut interleaved_scenes = 0;
    let mut continuations_everywhere = true;
    let mut compared_calls = 0;
    let mut cut_calls = 0;
    let mut idle_compared = 0;
    let mut wasted_compared = 0;
    for s in &scenes {
        let mut proj = full.clone();
        proj.ops.retain(|o| scene_of(o) == Some(*s));
        // keep the custom ids identical: they are derived from the operation index, so the
        // projection is run with placeholders for the removed operations
        let mut proj_ops = vec![];
        for o in &full.ops {
            if scene_of(o) == Some(*s) || scene_of(o).is_none() {
                proj_ops.push(o.clone());
            } else {
                proj_ops.push(Op::Stats);
            }
        }
        proj.ops = proj_ops;
        let single = run_monitored(&proj, Flags { c01: false, c03: false, c13: false, margins: true, group_batches: false })?;
        let a: Vec<Vec<Rec>> = inter.records.iter().filter(|(k, _)| scene_of(&full.ops[*k]) == Some(*s)).map(|(_, r)| r.clone()).collect();
        let b: Vec<Vec<Rec>> = single.records.iter().map(|(_, r)| r.clone()).collect();
        ensure!(a.len() == b.len(), "isolation-call-count", "scene {}: {} calls in the interleaved run, {} in the projection", s, a.len(), b.len());
        // cut at the first ambiguous call of this scene in either run
        let ma: Vec<f64> = inter.call_margins.iter().filter(|(sc, _)| sc == s).map(|(_, m)| *m).collect();
        let mb: Vec<f64> = single.call_margins.iter().map(|(_, m)| *m).collect();
        let cut = (0..a.len()).find(|i| ma.get(*i).copied().unwrap_or(0.0) < MARGIN || mb.get(*i).copied().unwrap_or(0.0) < MARGIN).unwrap_or(a.len());
        compared_calls += cut;
        cut_calls += a.len() - cut;
        let ids = same_up_to_ids_map(&a[..cut], &b[..cut], &format!("scene {}", s)).map_err(|f| Fail::new(format!("isolation-{}", f.signature), f.msg))?;
        // what the idle-tracks call reports for the scene (inside the compared prefix) is the same
        // set of tracks under that bijection
        let scene_calls: Vec<usize> = inter.records.iter().filter(|(k, _)| scene_of(&full.ops[*k]) == Some(*s)).map(|(k, _)| *k).collect();
        let cut_op = scene_calls.get(cut).copied().unwrap_or(usize::MAX);
        for (k, set) in inter.idle_sets.iter().filter(|(k, _)| *k < cut_op && scene_of(&full.ops[*k]) == Some(*s)) {
            if let Some((_, other)) = single.idle_sets.iter().find(|(k2, _)| k2 == k) {
                let mapped: std::collections::BTreeSet<u64> = set.iter().map(|id| ids.get(id).copied().unwrap_or(u64::MAX)).collect();
                ensure!(mapped == *other, "isolation-idle-report", "scene {}: idle tracks reported at op {} differ: {:?} interleaved (ids of the projection: {:?}) vs {:?} in the projection", s, k, set, mapped, other);
                idle_compared += 1;
            }
        }
        // ... and so are the finished tracks of the scene handed out by each wasted() call, as long
        // as no clear_wasted came before (what that call discards depends on when the tracker-wide
        // collection ran, which the statement leaves open)
        let first_clear = full.ops.iter().position(|o| matches!(o, Op::ClearWasted)).unwrap_or(usize::MAX);
        let scene_ids: std::collections::BTreeSet<u64> = inter.records.iter().filter(|(k, _)| scene_of(&full.ops[*k]) == Some(*s)).flat_map(|(_, r)| r.iter().map(|x| x.id)).collect();
        for (k, set) in inter.wasted_sets.iter().filter(|(k, _)| *k < cut_op && *k < first_clear) {
            if let Some((_, other)) = single.wasted_sets.iter().find(|(k2, _)| k2 == k) {
                let mapped: std::collections::BTreeSet<u64> = set.iter().filter(|id| scene_ids.contains(id)).map(|id| ids.get(id).copied().unwrap_or(u64::MAX)).collect();
                ensure!(mapped == *other, "isolation-wasted-report", "scene {}: finished tracks handed out by wasted() at op {} differ: {:?} of this scene interleaved (ids of the projection: {:?}) vs {:?} in the projection", s, k, set.iter().filter(|id| scene_ids.contains(id)).collect::<Vec<_>>(), mapped, other);
                wasted_compared += 1;
            }
        }
        if let Some(g) = &grouped {
            let g: Vec<Vec<Rec>> = g.records.iter().filter(|(k, _)| scene_of(&full.ops[*k]) == Some(*s)).map(|(_, r)| r.clone()).collect();
            ensure!(g.len() == b.len(), "isolation-call-count", "scene {}: {} calls in the shared-batch run, {} in the projection", s, g.len(), b.len());
            same_up_to_ids(&g[..cut], &b[..cut], &format!("scene {} (sharing batches with other scenes)", s)).map_err(|f| Fail::new(format!("isolation-shared-batch-{}", f.signature), f.msg))?;
        }
        if a[..cut].iter().flatten().any(|r| r.length > 1) {
            interleaved_scenes += 1;
        } else {
            continuations_everywhere = false;
        }
    }
    let nontrivial = scenes.len() >= 2 && continuations_everywhere && interleaved_scenes >= 2;
    Ok(CaseOk::new(nontrivial)
        .label(h.cfg.kind.name())
        .label_if(cut_calls > 0, "cut_at_fragile_call")
        .label_if(idle_compared > 0, "idle_reports_compared")
        .label_if(wasted_compared > 0, "wasted_reports_compared")
        .label_if(compared_calls == 0, "nothing_compared")
        .label_if(grouped.is_some(), "shared_batches")
        .label_if(scenes.len() >= 2, "multi_scene"))
}

pub fn run(env: &Env, rep: &Report) {
    rep.set_rule("multi-scene histories in which every scene replays the same object trajectories in the same image region (own clock per scene), random interleaving of predict / skip calls, all four trackers (batch trackers additionally with the consecutive calls of different scenes sharing one batch), IoU and Mahalanobis, tie-free by construction (no duplicate detections, distinct appearance per detection). Oracle: for every scene the record sequence of the interleaved run equals that of the projection of the history onto the scene, bit-equal in boxes / epochs / lengths / voting types, under one incrementally built bijection of track ids; plus 'never attached to a track of another scene'. Comparison is cut at the first call whose decision margin (shadow) is below 1e-4. Non-trivial: >= 2 scenes, each with >= 1 continuation inside the compared prefix; distinct = distinct serialized history");
    rep.assume("decision margins come from the f64 shadow of each call (props/shadow.rs); a call with a margin below 1e-4 may legitimately be decided differently in two runs");
    let pool = IsoPool::new(&env.prop, "isolation", std::time::Duration::from_secs(120));
    let n = env.tier.pick(2_500, 30_000);
    for kind in KINDS {
        par_generated(rep, "isolation", move || history_opts(kind, true, 60, false), n, workers(), iso_check(&pool, rep));
    }
}

pub fn replay(sub: &str, case: Value) -> Option<CaseResult> {
    match sub {
        "isolation" => Some(replay_case(case, check_isolation, sub)),
        _ => None,
    }
}
