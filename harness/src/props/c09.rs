//! C09 Track store = id -> track map; merge failures reported. Generated operation sequences
//! against the sequential reference model (store_kit.rs), full contents compared after every step.

use crate::core::*;
use crate::ensure;
use crate::props::c11::track_desc;
use crate::store_kit::*;
use proptest::prelude::*;
use serde::{Deserialize, Serialize};
use serde_json::Value;
use similari::store::TrackStore;
use std::collections::BTreeMap;

#[derive(Clone, Debug, Serialize, Deserialize)]
pub enum SOp {
    AddTrack(TrackDesc),
    Add { id: u64, class: u64, attr: Option<i32>, feat: Option<i32>, upd: Option<HU> },
    Fetch(Vec<u64>),
    MergeOwned { dest: u64, src: u64, classes: Option<Vec<u64>>, remove: bool, history: bool },
    MergeExternal { dest: u64, src: TrackDesc, classes: Option<Vec<u64>>, history: bool, noblock: bool },
    Lookup(HL),
    /// several lookups issued at the same moment from different threads, as
    /// readers sharing the store behind a read lock do
    ConcurrentLookups(Vec<HL>),
    FindUsable,
    Clear,
    ShardStats,
    /// several merge_external_noblock issued back to back, the futures read afterwards
    MergeBurst(Vec<(u64, TrackDesc, Option<Vec<u64>>, bool)>),
    /// new_track(id) builder with one observation, then add_track
    NewTrack { id: u64, class: u64, attr: Option<i32>, feat: Option<i32>, upd: Option<HU> },
}

#[derive(Clone, Debug, Serialize, Deserialize)]
pub struct SeqCase {
    pub shards: usize,
    pub default_val: i64,
    pub ops: Vec<SOp>,
}

type Model = BTreeMap<u64, MTrack>;

/// What the *last* optimise call saw depends on the (hash-map) order in which an unordered
/// class list is processed; these diagnostic fields are C11's business and are masked here.
fn ms(mut s: Snap) -> Snap {
    s.attrs.5 = 0;
    s.attrs.6 = 0;
    s.attrs.7 = 0;
    s
}

fn status_str(r: &anyhow::Result<similari::track::TrackStatus>) -> &'static str {
    match r {
        Ok(similari::track::TrackStatus::Pending) => "pending",
        Ok(similari::track::TrackStatus::Ready) => "ready",
        Ok(similari::track::TrackStatus::Wasted) => "wasted",
        Err(_) => "error",
    }
}

fn model_status(t: &MTrack) -> &'static str {
    t.status().unwrap_or("error")
}

fn model_lookup(q: &HL, t: &MTrack) -> bool {
    match q {
        HL::All => true,
        HL::ValAtLeast(v) => t.attrs.val >= *v,
        HL::Group(g) => t.attrs.group == *g,
        HL::HasClass(c) => t.obs.contains_key(c),
        HL::HistoryLonger(n) => t.history.len() > *n,
    }
}

fn contents(store: &TrackStore<HA, HM, HO, HN>, shards: usize) -> Result<BTreeMap<u64, Snap>, Fail> {
    let mut out = BTreeMap::new();
    for s in 0..shards {
        let g = store.get_store(s);
        for (id, t) in g.iter() {
            ensure!(*id == t.get_track_id(), "store-key-mismatch", "track {} stored under key {}", t.get_track_id(), id);
            ensure!(*id as usize % shards == s, "store-wrong-shard", "track {} found in shard {} of {}", id, s, shards);
            ensure!(out.insert(*id, ms(snap_track(t))).is_none(), "store-duplicate", "track {} stored twice", id);
        }
    }
    Ok(out)
}

pub fn check_seq(c: &SeqCase) -> CaseResult {
    let ctl = Ctl::new();
    let n = HN::new();
    let mut default_attrs = HA::new(ctl.clone());
    default_attrs.val = c.default_val;
    let default_metric = HM::new(ctl.clone());
    let mut store: QuietDrop<TrackStore<HA, HM, HO, HN>> = QuietDrop::new(TrackStore::new(default_metric.clone(), default_attrs.clone(), n.clone(), c.shards));
    let mut model: Model = BTreeMap::new();
    let mut failed_merge = false;
    let mut add_missing_opt = false;
    let mut partial_fetch = false;
    for (step, op) in c.ops.iter().enumerate() {
        let at = |s: &str| format!("step {} {:?}: {}", step, op, s);
        match op {
            SOp::AddTrack(d) => {
                let (t, m) = build_both(d, &ctl, &n);
                let r = store.add_track(t);
                if model.contains_key(&d.id) {
                    ensure!(r.is_err(), "add-track-duplicate-accepted", "{}", at("duplicate id accepted"));
                } else {
                    ensure!(matches!(r, Ok(id) if id == d.id), "add-track-result", "{}", at(&format!("returned {:?}", r.map_err(|e| e.to_string()))));
                    model.insert(d.id, m);
                }
            }
            SOp::Add { id, class, attr, feat: f, upd } => {
                let r = store.add(*id, *class, attr.map(HO), f.map(feat), upd.clone());
                let expect_ok = match model.get_mut(id) {
                    Some(t) => t.add_observation(*class, attr.map(HO), f.map(feat), upd.clone()).0.is_ok(),
                    None => {
                        let mut t = MTrack::new(*id, default_attrs.clone(), default_metric.clone());
                        let ok = t.add_observation(*class, attr.map(HO), f.map(feat), upd.clone()).0.is_ok();
                        if ok {
                            model.insert(*id, t);
                            if attr.is_some() || f.is_some() {
                                add_missing_opt = true;
                            }
                        }
                        ok
                    }
                };
                ensure!(r.is_ok() == expect_ok, "add-result", "{}", at(&format!("returned {} but the model {}", if r.is_ok() { "Ok" } else { "Err" }, if expect_ok { "Ok" } else { "Err" })));
            }
            SOp::Fetch(ids) => {
                let got: Vec<Snap> = store.fetch_tracks(ids).iter().map(|t| ms(snap_track(t))).collect();
                let mut want = vec![];
                for id in ids {
                    match model.remove(id) {
                        Some(t) => want.push(ms(t.snap())),
                        None => partial_fetch = true,
                    }
                }
                ensure!(got == want, "fetch-result", "{}", at(&format!("returned {:?}, expected {:?}", got.iter().map(|s| s.id).collect::<Vec<_>>(), want.iter().map(|s| s.id).collect::<Vec<_>>())));
            }
            SOp::MergeOwned { dest, src, classes, remove, history } => {
                let r = store.merge_owned(*dest, *src, classes.as_deref(), *remove, *history);
                let expect: Result<Option<Snap>, ()> = if !model.contains_key(src) || !model.contains_key(dest) || dest == src {
                    Err(())
                } else {
                    let s = model.get(src).unwrap().clone();
                    let cl = classes.clone().filter(|c| !c.is_empty()).unwrap_or_else(|| s.classes());
                    let (mr, _) = model.get_mut(dest).unwrap().merge(&s, &cl, *history);
                    match mr {
                        Ok(()) => {
                            if *remove {
                                model.remove(src);
                                Ok(Some(ms(s.snap())))
                            } else {
                                Ok(None)
                            }
                        }
                        Err(_) => Err(()),
                    }
                };
                if expect.is_err() {
                    failed_merge = true;
                }
                let got: Result<Option<Snap>, ()> = r.map(|o| o.map(|t| ms(snap_track(&t)))).map_err(|_| ());
                ensure!(got == expect, "merge-owned-result", "{}", at(&format!("returned {:?}, expected {:?}", got.as_ref().map(|o| o.as_ref().map(|s| s.id)), expect.as_ref().map(|o| o.as_ref().map(|s| s.id)))));
            }
            SOp::MergeExternal { dest, src, classes, history, noblock } => {
                let (t, m) = build_both(src, &ctl, &n);
                let r = if *noblock {
                    store.merge_external_noblock(*dest, t, classes.as_deref(), *history).and_then(|f| f.get())
                } else {
                    store.merge_external(*dest, &t, classes.as_deref(), *history)
                };
                let expect_ok = if !model.contains_key(dest) || *dest == src.id {
                    false
                } else {
                    let cl = classes.clone().filter(|c| !c.is_empty()).unwrap_or_else(|| m.classes());
                    model.get_mut(dest).unwrap().merge(&m, &cl, *history).0.is_ok()
                };
                if !expect_ok {
                    failed_merge = true;
                }
                ensure!(r.is_ok() == expect_ok, "merge-external-result", "{}", at(&format!("returned {} but the model {}", if r.is_ok() { "Ok" } else { "Err" }, if expect_ok { "Ok" } else { "Err" })));
            }
            SOp::MergeBurst(ms) => {
                let mut futures = vec![];
                let mut expects = vec![];
                let mut built = vec![];
                for (_, src, _, _) in ms {
                    built.push(build_both(src, &ctl, &n));
                }
                ctl.slow_us.store(250, std::sync::atomic::Ordering::Relaxed);
                let mut forgotten = 0;
                for (i, ((dest, src, classes, history), (t, m))) in ms.iter().zip(built.into_iter()).enumerate() {
                    let fut = store.merge_external_noblock(*dest, t, classes.as_deref(), *history);
                    // fire and forget: every third handle is dropped unread while its (slowed down)
                    // merge is queued or running; the merge counts all the same
                    if (i as u64).wrapping_add(*dest) % 3 == 1 {
                        drop(fut);
                        forgotten += 1;
                        futures.push(None);
                    } else {
                        futures.push(Some(fut));
                    }
                    // commands to one shard are executed in order, shards are independent: the
                    // sequential application in issue order is the reference
                    let expect_ok = if !model.contains_key(dest) || *dest == src.id {
                        false
                    } else {
                        let cl = classes.clone().filter(|c| !c.is_empty()).unwrap_or_else(|| m.classes());
                        model.get_mut(dest).unwrap().merge(&m, &cl, *history).0.is_ok()
                    };
                    if !expect_ok {
                        failed_merge = true;
                    }
                    expects.push(expect_ok);
                }
                // while the merges are in flight the store is still a map of the same tracks: every
                // stored track can be found and the per-shard counts add up (merges never add or
                // remove tracks); sampled a few times while the (slowed down) workers are busy
                let before_len = model.len();
                for _ in 0..4 {
                    let total: usize = store.shard_stats().iter().sum();
                    ensure!(total == before_len, "store-count-during-merge", "{}", at(&format!("shard_stats sums to {} while merges are in flight, {} tracks are stored", total, before_len)));
                    for id in model.keys() {
                        ensure!(store.get_store(*id as usize).contains_key(id), "store-track-missing-during-merge", "{}", at(&format!("track {} cannot be found while a merge is in flight", id)));
                    }
                    std::thread::sleep(std::time::Duration::from_micros(120));
                }
                ctl.slow_us.store(0, std::sync::atomic::Ordering::Relaxed);
                for (i, (f, e)) in futures.into_iter().zip(expects.into_iter()).enumerate() {
                    if let Some(f) = f {
                        let r = f.and_then(|f| f.get());
                        ensure!(r.is_ok() == e, "merge-burst-result", "{}", at(&format!("merge {} of the burst returned {} but the model {}", i, if r.is_ok() { "Ok" } else { "Err" }, if e { "Ok" } else { "Err" })));
                    }
                }
                if forgotten > 0 {
                    // commands of a shard are served in order: once every shard has answered a
                    // lookup, the merges whose handles were dropped have been carried out as well
                    let all = store.lookup(HL::All).len();
                    ensure!(all == model.len(), "lookup-result", "{}", at(&format!("a lookup of everything after the burst returns {} tracks, {} are stored", all, model.len())));
                }
            }
            SOp::Lookup(q) => {
                let mut got: Vec<(u64, &'static str)> = store.lookup(q.clone()).iter().map(|(id, s)| (*id, status_str(s))).collect();
                got.sort();
                let want: Vec<(u64, &'static str)> = model.values().filter(|t| model_lookup(q, t)).map(|t| (t.id, model_status(t))).collect();
                ensure!(got == want, "lookup-result", "{}", at(&format!("returned {:?}, expected {:?}", got, want)));
            }
            SOp::ConcurrentLookups(qs) => {
                let barrier = std::sync::Barrier::new(qs.len() + 1);
                let store_ref = &store;
                let (results, usable) = std::thread::scope(|sc| {
                    let hs: Vec<_> = qs
                        .iter()
                        .map(|q| {
                            let b = &barrier;
                            sc.spawn(move || {
                                b.wait();
                                let mut out = vec![];
                                // repeated so that the calls really overlap
                                for _ in 0..4 {
                                    let mut got: Vec<(u64, &'static str)> = store_ref.lookup(q.clone()).iter().map(|(id, s)| (*id, status_str(s))).collect();
                                    got.sort();
                                    out.push(got);
                                }
                                out
                            })
                        })
                        .collect();
                    barrier.wait();
                    (hs.into_iter().map(|h| h.join()).collect::<Vec<_>>(), ())
                });
                let _ = usable;
                let mut usable: Vec<(u64, &'static str)> = store.find_usable().iter().map(|(id, s)| (*id, status_str(s))).collect();
                usable.sort();
                for (q, r) in qs.iter().zip(results) {
                    let r = match r {
                        Ok(r) => r,
                        Err(_) => return Err(Fail::new("lookup-concurrent-panic", at("a lookup issued concurrently with other lookups panicked"))),
                    };
                    let want: Vec<(u64, &'static str)> = model.values().filter(|t| model_lookup(q, t)).map(|t| (t.id, model_status(t))).collect();
                    for got in r {
                        ensure!(got == want, "lookup-concurrent", "{}", at(&format!("a lookup {:?} issued concurrently with {} others returned {:?}, expected {:?}", q, qs.len() - 1, got, want)));
                    }
                }
                let want: Vec<(u64, &'static str)> = model.values().filter(|t| model_status(t) != "pending").map(|t| (t.id, model_status(t))).collect();
                ensure!(usable == want, "find-usable-result", "{}", at(&format!("(after concurrent lookups) returned {:?}, expected {:?}", usable, want)));
            }
            SOp::FindUsable => {
                let mut got: Vec<(u64, &'static str)> = store.find_usable().iter().map(|(id, s)| (*id, status_str(s))).collect();
                got.sort();
                let want: Vec<(u64, &'static str)> = model.values().filter(|t| model_status(t) != "pending").map(|t| (t.id, model_status(t))).collect();
                ensure!(got == want, "find-usable-result", "{}", at(&format!("returned {:?}, expected {:?}", got, want)));
            }
            SOp::Clear => {
                store.clear();
                model.clear();
            }
            SOp::ShardStats => {
                let got = store.shard_stats();
                let mut want = vec![0usize; c.shards];
                for id in model.keys() {
                    want[*id as usize % c.shards] += 1;
                }
                ensure!(got == want, "shard-stats", "{}", at(&format!("returned {:?}, expected {:?}", got, want)));
            }
            SOp::NewTrack { id, class, attr, feat: f, upd } => {
                let mut b = store.new_track(*id);
                let mut ob = similari::prelude::ObservationBuilder::new(*class);
                if let Some(a) = attr {
                    ob = ob.observation_attributes(HO(*a));
                }
                if let Some(f) = f {
                    ob = ob.observation(feat(*f));
                }
                if let Some(u) = upd {
                    ob = ob.track_attributes_update(u.clone());
                }
                b = b.observation(ob.build());
                let built = b.build();
                let mut m = MTrack::new(*id, default_attrs.clone(), default_metric.clone());
                let ok = m.add_observation(*class, attr.map(HO), f.map(feat), upd.clone()).0.is_ok();
                ensure!(built.is_ok() == ok, "new-track-result", "{}", at("builder result differs from the model"));
                if let Ok(t) = built {
                    ensure!(ms(snap_track(&t)) == ms(m.snap()), "new-track-state", "{}", at(&format!("built {:?}, expected {:?}", snap_track(&t), m.snap())));
                    let r = store.add_track(t);
                    if model.contains_key(id) {
                        ensure!(r.is_err(), "add-track-duplicate-accepted", "{}", at("duplicate id accepted"));
                    } else {
                        ensure!(r.is_ok(), "add-track-result", "{}", at("rejected"));
                        model.insert(*id, m);
                    }
                }
            }
        }
        // full contents after every step
        let got = contents(&store, c.shards)?;
        let want: BTreeMap<u64, Snap> = model.iter().map(|(k, v)| (*k, ms(v.snap()))).collect();
        if got != want {
            let ids_got: Vec<u64> = got.keys().cloned().collect();
            let ids_want: Vec<u64> = want.keys().cloned().collect();
            let diff = want.iter().find(|(k, v)| got.get(k) != Some(v)).map(|(k, v)| format!("track {}: stored {:?}, expected {:?}", k, got.get(k), v)).unwrap_or_default();
            return Err(Fail::new("store-contents", at(&format!("stored ids {:?}, expected {:?}; {}", ids_got, ids_want, diff))));
        }
        let stats = store.shard_stats();
        ensure!(stats.iter().sum::<usize>() == model.len(), "shard-stats-sum", "{}", at(&format!("shard_stats {:?} does not sum to {}", stats, model.len())));
    }
    Ok(CaseOk::new(failed_merge || add_missing_opt || partial_fetch)
        .label_if(failed_merge, "failing_merge")
        .label_if(add_missing_opt, "add_creates_track")
        .label_if(partial_fetch, "fetch_partly_missing"))
}

fn ids() -> impl Strategy<Value = u64> {
    // mostly a small alphabet (collisions), sometimes ids beyond 32 bits (shard = id mod n must
    // use the whole id)
    prop_oneof![8 => 1u64..5, 2 => 5u64..9, 1 => prop_oneof![Just(1u64 << 32), Just((1u64 << 32) + 1), Just((1u64 << 40) + 7), Just(u64::MAX), Just(u64::MAX - 1)]]
}

fn opt_classes() -> impl Strategy<Value = Option<Vec<u64>>> {
    proptest::option::of(Just(vec![0u64, 1, 2, 3]).prop_shuffle().prop_flat_map(|v| (Just(v), 0usize..=3)).prop_map(|(v, n)| v[..n].to_vec()))
}

fn sop() -> impl Strategy<Value = SOp> {
    let attr = || prop_oneof![1 => Just(None), 6 => (0i32..12).prop_map(Some), 1 => Just(Some(666))];
    let feat = || prop_oneof![1 => Just(None), 3 => (0i32..9).prop_map(Some)];
    let upd = || prop_oneof![3 => Just(None), 2 => (-3i64..9).prop_map(|v| Some(HU::Set(v))), 1 => (-3i64..4).prop_map(|v| Some(HU::Add(v))), 1 => (0u8..2).prop_map(|g| Some(HU::Group(g))), 1 => any::<bool>().prop_map(|p| Some(HU::Poison(p))), 1 => Just(Some(HU::Fail))];
    prop_oneof![
        4 => ids().prop_flat_map(track_desc).prop_map(SOp::AddTrack),
        4 => (ids(), 0u64..3, attr(), feat(), upd()).prop_map(|(id, class, attr, feat, upd)| SOp::Add { id, class, attr, feat, upd }),
        2 => proptest::collection::vec(ids(), 0..4).prop_map(SOp::Fetch),
        4 => (ids(), ids(), opt_classes(), any::<bool>(), any::<bool>()).prop_map(|(dest, src, classes, remove, history)| SOp::MergeOwned { dest, src, classes, remove, history }),
        3 => (ids(), prop_oneof![3 => Just(100u64), 1 => ids()].prop_flat_map(track_desc), opt_classes(), any::<bool>(), any::<bool>()).prop_map(|(dest, src, classes, history, noblock)| SOp::MergeExternal { dest, src, classes, history, noblock }),
        2 => proptest::collection::vec((ids(), prop_oneof![3 => Just(100u64), 1 => ids()].prop_flat_map(track_desc), opt_classes(), any::<bool>()), 2..5).prop_map(SOp::MergeBurst),
        2 => prop_oneof![Just(HL::All), (-2i64..8).prop_map(HL::ValAtLeast), (0u8..2).prop_map(HL::Group), (0u64..4).prop_map(HL::HasClass), (0usize..3).prop_map(HL::HistoryLonger)].prop_map(SOp::Lookup),
        1 => proptest::collection::vec(prop_oneof![Just(HL::All), (-2i64..8).prop_map(HL::ValAtLeast), (0u8..2).prop_map(HL::Group), (0u64..4).prop_map(HL::HasClass), (0usize..3).prop_map(HL::HistoryLonger)], 2..5).prop_map(SOp::ConcurrentLookups),
        2 => Just(SOp::FindUsable),
        1 => Just(SOp::Clear),
        1 => Just(SOp::ShardStats),
        2 => (ids(), 0u64..3, attr(), feat(), upd()).prop_map(|(id, class, attr, feat, upd)| SOp::NewTrack { id, class, attr, feat, upd }),
    ]
}

pub fn seq_case() -> impl Strategy<Value = SeqCase> {
    (1usize..=5, -1i64..4, prop_oneof![3 => proptest::collection::vec(sop(), 0..40), 1 => proptest::collection::vec(sop(), 40..300)]).prop_map(|(shards, default_val, ops)| SeqCase { shards, default_val, ops })
}

/// small alphabet for the exhaustive part
fn alphabet() -> Vec<SOp> {
    let d = |id: u64, val: i64, poison: bool, obs: Vec<(u64, Option<i32>, Option<i32>)>| TrackDesc { id, val, group: 0, poison, obs, reid: None };
    let mut a = vec![
        SOp::AddTrack(d(1, 1, false, vec![(0, Some(3), Some(1))])),
        SOp::AddTrack(d(2, 2, false, vec![(0, Some(5), None), (1, Some(2), Some(2))])),
        SOp::AddTrack(d(2, 0, true, vec![])),
        SOp::AddTrack(d(4, 3, false, vec![(1, None, Some(4))])),
        SOp::Add { id: 1, class: 0, attr: Some(7), feat: Some(2), upd: None },
        SOp::Add { id: 2, class: 1, attr: Some(1), feat: None, upd: Some(HU::Add(1)) },
        SOp::Add { id: 3, class: 0, attr: Some(4), feat: Some(4), upd: Some(HU::Set(5)) },
        SOp::Add { id: 3, class: 0, attr: None, feat: None, upd: Some(HU::Set(2)) },
        SOp::Add { id: 1, class: 0, attr: Some(666), feat: None, upd: None },
        SOp::Add { id: 2, class: 0, attr: Some(1), feat: None, upd: Some(HU::Fail) },
        SOp::Add { id: 5, class: 2, attr: Some(666), feat: None, upd: None },
        SOp::Fetch(vec![1]),
        SOp::Fetch(vec![2, 1]),
        SOp::Fetch(vec![3, 1, 3]),
        SOp::Fetch(vec![]),
        SOp::Lookup(HL::All),
        SOp::Lookup(HL::HasClass(1)),
        SOp::Lookup(HL::HistoryLonger(1)),
        SOp::FindUsable,
        SOp::Clear,
        SOp::ShardStats,
        SOp::NewTrack { id: 1, class: 0, attr: Some(2), feat: Some(1), upd: None },
        SOp::NewTrack { id: 6, class: 1, attr: Some(9), feat: None, upd: Some(HU::Set(1)) },
    ];
    for (dest, src) in [(1u64, 2u64), (2, 1), (1, 1), (1, 3), (3, 1)] {
        for remove in [false, true] {
            a.push(SOp::MergeOwned { dest, src, classes: None, remove, history: true });
        }
    }
    a.push(SOp::MergeOwned { dest: 1, src: 2, classes: Some(vec![1, 3]), remove: true, history: false });
    for dest in [1u64, 3] {
        a.push(SOp::MergeExternal { dest, src: d(9, 1, false, vec![(0, Some(8), Some(3)), (2, Some(1), None)]), classes: None, history: true, noblock: false });
    }
    a.push(SOp::MergeExternal { dest: 1, src: d(1, 1, false, vec![(0, Some(8), None)]), classes: None, history: true, noblock: false });
    a.push(SOp::MergeExternal { dest: 2, src: d(9, 1, true, vec![(0, Some(8), None)]), classes: Some(vec![0]), history: false, noblock: true });
    a.push(SOp::MergeExternal { dest: 2, src: d(9, 1, false, vec![(0, Some(666), None)]), classes: Some(vec![0, 2]), history: true, noblock: true });
    a
}

pub fn run(env: &Env, rep: &Report) {
    rep.set_rule("operation sequences over add_track, add, fetch_tracks, merge_owned, merge_external(+noblock/get), lookup, find_usable, clear, shard_stats, new_track with ids from a small alphabet (collisions likely), 3 feature classes, shard counts 1..5, harness attribute/metric types with status, compatibility, failing merges and a sorting/truncating/attribute-mutating optimise; exhaustive over all sequences of length <=2 (quick) / <=3 (thorough) of a 39-operation alphabet x shard counts {1,2,3}, random sequences up to 300 operations. Oracle: sequential model; every return value and the full store contents (per shard) compared after every step. Non-trivial: a sequence containing a merge the model rejects, an add that creates a track with a real observation, or a fetch of a partly missing id list; distinct = distinct serialized case");
    rep.assume("empty or absent class list = all classes of the source; what the last optimise call saw is masked only through the model using the same callbacks in list order (class lists are explicit or single-class in the exhaustive alphabet)");
    let alpha = alphabet();
    stall_watchdog(300);
    let depth = env.tier.pick(2, 3);
    let shard_counts = [1usize, 2, 3];
    let na = alpha.len();
    let mut seqs: Vec<Vec<usize>> = vec![vec![]];
    let mut frontier: Vec<Vec<usize>> = vec![vec![]];
    for _ in 0..depth {
        let mut next = vec![];
        for s in &frontier {
            for k in 0..na {
                let mut t = s.clone();
                t.push(k);
                next.push(t);
            }
        }
        seqs.extend(next.iter().cloned());
        frontier = next;
    }
    let w = workers();
    let chunk = (seqs.len() + w - 1) / w;
    std::thread::scope(|s| {
        for part in seqs.chunks(chunk.max(1)) {
            let alpha = &alpha;
            s.spawn(move || {
                let it = part.iter().flat_map(|seq| shard_counts.iter().map(move |sh| SeqCase { shards: *sh, default_val: 0, ops: seq.iter().map(|k| alpha[*k].clone()).collect() }));
                run_enumerated(rep, "exhaustive", it, check_seq);
            });
        }
    });
    rep.set_exhaustive("exhaustive", true);
    rep.note("exhaustive", format!("all sequences of length <= {} over {} operations x shard counts {:?}", depth, na, shard_counts));
    // random sequences run in child processes: a store whose worker thread has gone leaves its
    // caller blocked for ever (lookup, find_usable and the merge handles wait on a channel the
    // store itself keeps open). An operation on a handful of tracks that does not return within
    // 30 s in two fresh processes is reported: "returns exactly the tracks ..." includes returning.
    let pool = IsoPool::new(&env.prop, "random", std::time::Duration::from_secs(30));
    let check = |c: &SeqCase| -> CaseResult {
        match pool.eval(c) {
            Err(f) if f.signature.starts_with("hang@") => {
                let pool2 = IsoPool::new(&env.prop, "random", std::time::Duration::from_secs(30));
                match pool2.eval(c) {
                    Err(f2) if f2.signature.starts_with("hang@") => Err(Fail::new("no-return@store-ops", format!("a store operation of this sequence does not return (no answer within 30 s in two fresh processes; typical sequence: < 10 ms): {}", f2.msg))),
                    _ => {
                        rep.mark_inconclusive(format!("a sequence timed out once and completed on re-run: {}", f.msg));
                        Ok(CaseOk::trivial().label("hang_inconclusive"))
                    }
                }
            }
            r => r,
        }
    };
    par_generated(rep, "random", seq_case, env.tier.pick(12_000, 150_000), w, &check);
}

pub fn replay(sub: &str, case: Value) -> Option<CaseResult> {
    match sub {
        "exhaustive" | "random" => Some(replay_case(case, check_seq, sub)),
        _ => None,
    }
}
