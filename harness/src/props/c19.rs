//! C19 Box representations agree; box equality is a symmetric tolerance relation.

use crate::core::*;
use crate::ensure;
use crate::gen::boxes::*;
use crate::oracle::geom::{self, P};
use proptest::prelude::*;
use serde::{Deserialize, Serialize};
use serde_json::Value;
use similari::utils::bbox::{normalize_angle, BoundingBox, Universal2DBox};
use similari::EPS;

// ---------------------------------------------------------------------------------------------
#[derive(Clone, Debug, Serialize, Deserialize)]
pub struct Ltwh {
    pub l: f32,
    pub t: f32,
    pub w: f32,
    pub h: f32,
    pub conf: f32,
}

pub fn ltwh_case() -> impl Strategy<Value = Ltwh> {
    (cmax_class(), log_uniform(1e-2, 1e4), log_uniform(1e-2, 1e4), 0.0f32..=1.0)
        .prop_flat_map(|(cm, w, h, conf)| (-cm..cm, -cm..cm).prop_map(move |(l, t)| Ltwh { l, t, w, h, conf }))
}

pub fn check_ltwh(c: &Ltwh) -> CaseResult {
    let bb = BoundingBox::new_with_confidence(c.l, c.t, c.w, c.h, c.conf);
    let u = bb.as_xyaah();
    let u2 = Universal2DBox::from(&bb);
    let u3 = Universal2DBox::ltwh_with_confidence(c.l, c.t, c.w, c.h, c.conf);
    for (n, x) in [("From<&BoundingBox>", &u2), ("ltwh_with_confidence", &u3)] {
        ensure!(x.xc == u.xc && x.yc == u.yc && x.angle == u.angle && x.aspect == u.aspect && x.height == u.height && x.confidence == u.confidence,
            "ltwh-constructors", "{} differs from as_xyaah: {:?} vs {:?}", n, x, u);
    }
    ensure!(u.angle.is_none(), "ltwh-angle", "axis-aligned box converts to angle {:?}", u.angle);
    // forward conversion against the definition
    let tol_x = 4.0 * ulp32(c.l.abs().max(c.w)) as f64;
    let tol_y = 4.0 * ulp32(c.t.abs().max(c.h)) as f64;
    ensure!((u.xc as f64 - (c.l as f64 + c.w as f64 / 2.0)).abs() <= tol_x, "ltwh-forward", "xc={} for left={} width={}", u.xc, c.l, c.w);
    ensure!((u.yc as f64 - (c.t as f64 + c.h as f64 / 2.0)).abs() <= tol_y, "ltwh-forward", "yc={} for top={} height={}", u.yc, c.t, c.h);
    ensure!(u.height == c.h, "ltwh-forward", "height {} != {}", u.height, c.h);
    ensure!((u.aspect as f64 * c.h as f64 - c.w as f64).abs() <= 4.0 * ulp32(c.w) as f64, "ltwh-forward", "aspect {} * height {} != width {}", u.aspect, c.h, c.w);
    ensure!(u.confidence == c.conf, "ltwh-forward", "confidence {} != {}", u.confidence, c.conf);
    ensure!((u.area() as f64 - c.w as f64 * c.h as f64).abs() <= 1e-6 * c.w as f64 * c.h as f64, "ltwh-area", "area {} != w*h {}", u.area(), c.w * c.h);
    // and back
    let back = BoundingBox::try_from(&u).map_err(|e| Fail::new("ltwh-back-err", format!("{:?}", e)))?;
    ensure!((back.left as f64 - c.l as f64).abs() <= 2.0 * tol_x, "ltwh-roundtrip", "left {} -> {}", c.l, back.left);
    ensure!((back.top as f64 - c.t as f64).abs() <= 2.0 * tol_y, "ltwh-roundtrip", "top {} -> {}", c.t, back.top);
    ensure!((back.width as f64 - c.w as f64).abs() <= 4.0 * ulp32(c.w) as f64, "ltwh-roundtrip", "width {} -> {}", c.w, back.width);
    ensure!(back.height == c.h, "ltwh-roundtrip", "height {} -> {}", c.h, back.height);
    ensure!(back.confidence == c.conf, "ltwh-roundtrip", "confidence {} -> {}", c.conf, back.confidence);
    // every entry point of the backward conversion gives the same box
    let by_value = BoundingBox::try_from(u.clone()).map_err(|e| Fail::new("ltwh-back-err", format!("by value: {:?}", e)))?;
    let into: BoundingBox = u.clone().try_into().map_err(|e| Fail::new("ltwh-back-err", format!("try_into: {:?}", e)))?;
    for (n, x) in [("TryFrom<Universal2DBox> (by value)", &by_value), ("try_into", &into)] {
        ensure!(x.left == back.left && x.top == back.top && x.width == back.width && x.height == back.height && x.confidence == back.confidence,
            "ltwh-back-variants", "{} gives {:?}, the by-reference conversion {:?}", n, x, back);
    }
    let fwd_value = Universal2DBox::from(bb.clone());
    ensure!(fwd_value.xc == u.xc && fwd_value.yc == u.yc && fwd_value.angle == u.angle && fwd_value.aspect == u.aspect && fwd_value.height == u.height && fwd_value.confidence == u.confidence,
        "ltwh-constructors", "From<BoundingBox> (by value) differs from as_xyaah: {:?} vs {:?}", fwd_value, u);
    // a rotated box has no ltwh form
    let rot = u.clone().rotate(0.3);
    ensure!(BoundingBox::try_from(&rot).is_err(), "ltwh-rotated", "rotated box converted to ltwh");
    Ok(CaseOk::new(true))
}

// ---------------------------------------------------------------------------------------------
#[derive(Clone, Debug, Serialize, Deserialize)]
pub struct PolyCase {
    pub b: UB,
}

pub fn poly_case() -> impl Strategy<Value = PolyCase> {
    (cmax_class(), angle_any(), log_uniform(1e-2, 1e4), log_uniform(1e-2, 1e4))
        .prop_flat_map(|(cm, ang, w, h)| (-cm..cm, -cm..cm).prop_map(move |(x, y)| PolyCase { b: UB::new(x, y, ang, w / h, h) }))
}

pub fn check_poly(c: &PolyCase) -> CaseResult {
    let b = c.b.lib();
    let poly = b.get_vertices();
    let pts: Vec<P> = poly.exterior().0.iter().map(|c| P::new(c.x, c.y)).collect();
    ensure!(pts.len() == 5 && pts[0] == pts[4], "polygon-shape", "polygon has {} exterior coordinates (closed ring of 4 expected)", pts.len());
    ensure!(poly.interiors().is_empty(), "polygon-shape", "polygon has holes");
    let pts = &pts[..4];
    let r = c.b.rbox();
    let refv = r.vertices();
    let mag = r.xc.abs().max(r.yc.abs()) + r.radius();
    let tol = 1e-9 * mag + 1e-12;
    // same cyclic sequence, either orientation
    let mut matched = false;
    'outer: for dir in [1i32, -1] {
        for start in 0..4 {
            let mut ok = true;
            for k in 0..4i32 {
                let j = ((start as i32 + dir * k).rem_euclid(4)) as usize;
                if pts[k as usize].sub(refv[j]).norm() > tol {
                    ok = false;
                    break;
                }
            }
            if ok {
                matched = true;
                break 'outer;
            }
        }
    }
    ensure!(matched, "polygon-vertices", "vertices {:?} are not the rotated rectangle {:?}", pts, refv);
    // area, centre, radius (relative to the box centre to avoid cancellation at large coordinates)
    let o = r.center();
    let rel: Vec<P> = pts.iter().map(|p| p.sub(o)).collect();
    let area = geom::poly_area(&rel);
    ensure!((area - b.area() as f64).abs() <= 2e-6 * area.max(1e-30), "polygon-area", "shoelace {} vs area() {}", area, b.area());
    let cen = geom::centroid(&rel);
    ensure!(cen.norm() <= 1e-7 * r.radius() + tol, "polygon-centre", "centroid offset {:?}", cen);
    for p in &rel {
        ensure!((p.norm() - b.get_radius() as f64).abs() <= 2e-6 * r.radius(), "polygon-radius", "vertex at {} but get_radius() {}", p.norm(), b.get_radius());
    }
    // the vertex cache holds the same polygon
    let mut cached = c.b.lib();
    cached.gen_vertices();
    if c.b.angle.is_some() {
        let cp = cached.get_cached_vertices().as_ref().ok_or_else(|| Fail::new("polygon-cache", "gen_vertices left the cache empty"))?;
        ensure!(*cp == poly, "polygon-cache", "cached polygon differs from get_vertices()");
    }
    Ok(CaseOk::new(c.b.angle.map(|a| a != 0.0).unwrap_or(false)).label_if(c.b.angle.is_none(), "axis_aligned"))
}

// ---------------------------------------------------------------------------------------------
#[derive(Clone, Debug, Serialize, Deserialize)]
pub struct EqCase {
    /// true: BoundingBox (left, top, width, height, confidence); false: Universal2DBox
    pub ltwh: bool,
    pub base: [f32; 5],
    pub field: usize,
    pub delta: f32,
    /// universal only: angle given as None (field 2 then perturbs Some(delta) vs None)
    pub angle_none: bool,
    /// the perturbed coordinate is large and the pair differs by a few f32 steps of it (each step
    /// is more than EPS from magnitude 128 on): (magnitude, steps)
    #[serde(default)]
    pub big: Option<(f32, u8)>,
}

pub fn eq_case() -> impl Strategy<Value = EqCase> {
    let delta = prop_oneof![
        4 => (0.1f32..0.89).prop_map(|k| k * EPS),
        4 => (1.11f32..100.0).prop_map(|k| k * EPS),
        2 => (0.89f32..1.11).prop_map(|k| k * EPS),
        2 => (0.01f32.ln()..100f32.ln()).prop_map(|x: f32| x.exp()),
        1 => Just(0.0f32),
    ];
    (any::<bool>(), [0.25f32..2.0, 0.25f32..2.0, 0.25f32..2.0, 0.25f32..2.0, 0.25f32..2.0], 0usize..5, delta, any::<bool>(), any::<bool>(), prop_oneof![2 => Just(1.0f32), 1 => 500.0f32..8000.0], prop_oneof![6 => Just(None), 1 => (130.0f32..9000.0, 1u8..4).prop_map(Some)])
        .prop_map(|(ltwh, mut base, field, d, neg, angle_none, far, big)| {
            // the coordinates that are NOT perturbed may be large (a box far from the origin): the
            // perturbed one stays small so that its f32 difference is exact
            for pos in 0..2 {
                if pos != field {
                    base[pos] *= far;
                }
            }
            if ltwh {
                base[4] = (base[4] / 4.0).min(0.5); // confidence, room for +-delta inside [0,1]
            }
            let mut delta = if neg { -d } else { d };
            if ltwh && field == 4 {
                delta = delta.clamp(-0.4, 0.4);
            }
            if !ltwh && (field == 3 || field == 4) && base[field] + delta <= 0.0 {
                delta = -delta;
            }
            if ltwh && (field == 2 || field == 3) && base[field] + delta <= 0.0 {
                delta = -delta;
            }
            let big = if (ltwh && field == 4) || (!ltwh && field == 2 && angle_none) { None } else { big };
            EqCase { ltwh, base, field, delta, angle_none, big }
        })
}

pub fn check_eq(c: &EqCase) -> CaseResult {
    let mut other = c.base;
    other[c.field] = c.base[c.field] + c.delta;
    let mut base = c.base;
    if let Some((mag, steps)) = c.big {
        base[c.field] = mag;
        other[c.field] = f32::from_bits(mag.to_bits() + steps as u32);
    }
    if !c.ltwh && c.angle_none {
        // None stands for angle 0
        base[2] = 0.0;
        other[2] = if c.field == 2 { c.delta } else { 0.0 };
    }
    // the difference the library sees (f32 subtraction of nearby values)
    let d = (other[c.field] - base[c.field]).abs();
    let (ab, ba, aa, bb) = if c.ltwh {
        let a = BoundingBox { left: base[0], top: base[1], width: base[2], height: base[3], confidence: base[4] };
        let b = BoundingBox { left: other[0], top: other[1], width: other[2], height: other[3], confidence: other[4] };
        (a == b, b == a, a == a, b == b)
    } else {
        let ang = |v: f32, is_base: bool| if c.angle_none && (is_base || c.field != 2) { None } else { Some(v) };
        let a = Universal2DBox::new(base[0], base[1], ang(base[2], true), base[3], base[4]);
        let b = Universal2DBox::new(other[0], other[1], ang(other[2], false), other[3], other[4]);
        (a == b, b == a, a == a, b == b)
    };
    let kind = if c.ltwh { "BoundingBox" } else { "Universal2DBox" };
    let fname = if c.ltwh { ["left", "top", "width", "height", "confidence"][c.field] } else { ["xc", "yc", "angle", "aspect", "height"][c.field] };
    ensure!(aa && bb, format!("eq-reflexive-{}", kind), "{}: a box is not equal to itself", kind);
    ensure!(ab == ba, format!("eq-symmetry-{}-{}", kind, fname), "{}: a==b is {} but b==a is {} ({} differs by {})", kind, ab, ba, fname, other[c.field] - base[c.field]);
    let band = d >= 0.9 * EPS && d <= 1.1 * EPS;
    if d < 0.9 * EPS {
        ensure!(ab, format!("eq-close-{}-{}", kind, fname), "{}: boxes differing by {} < EPS in {} compare unequal", kind, d, fname);
    } else if d > 1.1 * EPS {
        ensure!(!ab && !ba, format!("eq-far-{}-{}", kind, fname), "{}: boxes differing by {} > EPS in {} compare equal (a==b {}, b==a {})", kind, other[c.field] - base[c.field], fname, ab, ba);
    }
    Ok(CaseOk::new(!band && d > 0.0).label(fname).label_if(band, "band").label_if(d > 1.1 * EPS, "beyond_eps").label_if(c.big.is_some(), "neighbouring_f32_values_of_a_large_coordinate"))
}

// ---------------------------------------------------------------------------------------------
/// several coordinates perturbed at once
#[derive(Clone, Debug, Serialize, Deserialize)]
pub struct EqMulti {
    pub ltwh: bool,
    pub base: [f32; 5],
    pub deltas: [f32; 5],
}

pub fn eq_multi() -> impl Strategy<Value = EqMulti> {
    let d = || prop_oneof![
        3 => Just(0.0f32),
        3 => ((0.1f32..0.89), any::<bool>()).prop_map(|(k, n)| if n { -k * EPS } else { k * EPS }),
        3 => ((0.6f32..0.89), any::<bool>()).prop_map(|(k, n)| if n { -k * EPS } else { k * EPS }),
        1 => ((1.11f32..30.0), any::<bool>()).prop_map(|(k, n)| if n { -k * EPS } else { k * EPS }),
    ];
    (any::<bool>(), [0.25f32..2.0, 0.25f32..2.0, 0.25f32..2.0, 0.25f32..2.0, 0.25f32..2.0], [d(), d(), d(), d(), d()]).prop_map(|(ltwh, mut base, deltas)| {
        if ltwh {
            base[4] = 0.2 + base[4] / 4.0; // confidence inside [0,1] with room for the perturbation
        }
        EqMulti { ltwh, base, deltas }
    })
}

pub fn check_eq_multi(c: &EqMulti) -> CaseResult {
    let mut other = c.base;
    for i in 0..5 {
        other[i] = c.base[i] + c.deltas[i];
    }
    let ds: Vec<f32> = (0..5).map(|i| (other[i] - c.base[i]).abs()).collect();
    let (ab, ba) = if c.ltwh {
        let a = BoundingBox { left: c.base[0], top: c.base[1], width: c.base[2], height: c.base[3], confidence: c.base[4] };
        let b = BoundingBox { left: other[0], top: other[1], width: other[2], height: other[3], confidence: other[4] };
        (a == b, b == a)
    } else {
        let a = Universal2DBox::new(c.base[0], c.base[1], Some(c.base[2]), c.base[3], c.base[4]);
        let b = Universal2DBox::new(other[0], other[1], Some(other[2]), other[3], other[4]);
        (a == b, b == a)
    };
    let kind = if c.ltwh { "BoundingBox" } else { "Universal2DBox" };
    ensure!(ab == ba, format!("eq-symmetry-{}-multi", kind), "{}: a==b is {} but b==a is {} (differences {:?})", kind, ab, ba, ds);
    let all_within = ds.iter().all(|d| *d < 0.9 * EPS);
    let any_beyond = ds.iter().any(|d| *d > 1.1 * EPS);
    if all_within {
        ensure!(ab, format!("eq-close-{}-multi", kind), "{}: boxes whose coordinates all differ by less than EPS ({:?}) compare unequal", kind, ds);
    } else if any_beyond {
        ensure!(!ab, format!("eq-far-{}-multi", kind), "{}: boxes with a coordinate differing by more than EPS ({:?}) compare equal", kind, ds);
    }
    let moved = ds.iter().filter(|d| **d > 0.0).count();
    Ok(CaseOk::new(moved >= 2 && (all_within || any_beyond)).label_if(moved >= 2 && all_within, "several_coordinates_within_eps").label_if(any_beyond, "beyond_eps").label_if(!all_within && !any_beyond, "band"))
}

// ---------------------------------------------------------------------------------------------
#[derive(Clone, Debug, Serialize, Deserialize)]
pub struct AngleCase {
    pub a: f32,
}

pub fn angle_case() -> impl Strategy<Value = AngleCase> {
    prop_oneof![
        4 => (-1000.0f32..1000.0),
        3 => (-20.0f32..20.0),
        2 => (-64i32..64, -3i32..=3).prop_map(|(k, u)| {
            let x = (k as f64 * std::f64::consts::FRAC_PI_2) as f32;
            f32::from_bits((x.to_bits() as i64 + u as i64).max(0) as u32) * if k < 0 && x == 0.0 { -1.0 } else { 1.0 }
        }),
        1 => (-1e-3f32..1e-3),
    ]
    .prop_map(|a| AngleCase { a })
}

pub fn check_angle(c: &AngleCase) -> CaseResult {
    let r = normalize_angle(c.a);
    let two_pi = 2.0 * std::f32::consts::PI;
    ensure!(r.is_finite(), "normalize-finite", "normalize_angle({}) = {}", c.a, r);
    ensure!(r >= 0.0 && r <= two_pi + ulp32(two_pi), "normalize-range", "normalize_angle({}) = {} outside [0, 2pi]", c.a, r);
    // equivalent modulo a full turn, up to the rounding of the input and of n * 2pi in f32
    let tol = 4.0 * ulp32(c.a.abs().max(two_pi)) as f64 + 1e-6;
    let (s0, c0) = (c.a as f64).sin_cos();
    let (s1, c1) = (r as f64).sin_cos();
    ensure!((s0 - s1).abs() <= tol && (c0 - c1).abs() <= tol, "normalize-equivalent",
        "normalize_angle({}) = {} is not the same direction (sin {} vs {}, cos {} vs {})", c.a, r, s0, s1, c0, c1);
    Ok(CaseOk::new(c.a < 0.0 || c.a >= two_pi))
}

// ---------------------------------------------------------------------------------------------
// the polygon of a box object with a history (vertices generated, fields edited, generated again)

#[derive(Clone, Debug, Serialize, Deserialize)]
pub struct EditedBox {
    pub b: UB,
    pub edits: Vec<crate::props::c08::BoxEdit>,
}

pub fn check_edited(c: &EditedBox) -> CaseResult {
    let (mut l, cur) = crate::props::c08::apply_edits(&c.b, &c.edits);
    // the polygon reported now is the one of the current geometry ...
    let now = PolyCase { b: cur };
    check_poly(&now)?;
    let poly = l.get_vertices();
    let fresh = cur.lib().get_vertices();
    ensure!(poly == fresh, "polygon-edited", "get_vertices() of an edited box differs from the polygon of a fresh box with the same fields");
    // ... and so is the cached one after generating the vertices again
    l.gen_vertices();
    if cur.angle.is_some() {
        match l.get_cached_vertices() {
            Some(p) => ensure!(*p == fresh, "polygon-regenerated", "gen_vertices() on an edited box keeps a polygon that is not the current one"),
            None => return Err(Fail::new("polygon-regenerated", "gen_vertices() left no polygon for a rotated box")),
        }
    }
    let generated_before = c.edits.iter().any(|e| matches!(e, crate::props::c08::BoxEdit::GenVertices));
    Ok(CaseOk::new(generated_before && c.edits.len() >= 2).label_if(generated_before, "vertices_generated_before_edit"))
}

pub fn edited_case() -> impl Strategy<Value = EditedBox> {
    use crate::props::c08::BoxEdit;
    let edit = prop_oneof![
        3 => Just(BoxEdit::GenVertices),
        2 => (-200.0f32..200.0).prop_map(BoxEdit::SetXc),
        2 => (-200.0f32..200.0).prop_map(BoxEdit::SetYc),
        2 => (-3.2f32..3.2).prop_map(BoxEdit::RotateMut),
        1 => prop_oneof![Just(None), (-3.2f32..3.2).prop_map(Some)].prop_map(BoxEdit::SetAngle),
        1 => (0.3f32..3.0).prop_map(BoxEdit::SetAspect),
        1 => (2.0f32..300.0).prop_map(BoxEdit::SetHeight),
        1 => Just(BoxEdit::CloneIt),
    ];
    (poly_case(), proptest::collection::vec(edit, 0..6)).prop_map(|(p, edits)| EditedBox { b: p.b, edits })
}

pub fn run(env: &Env, rep: &Report) {
    stall_watchdog(300);
    rep.set_rule("boxes with positive size over 1e-2..1e4 and any angle; equality pairs differing in exactly one coordinate by +-delta across the EPS boundary and pairs differing in several coordinates at once (each within EPS, or one beyond), both argument orders, both box types; angles to |a|<=1e3 and around multiples of pi/2. Non-trivial: rotated polygon; equality pair outside the 0.9..1.1 EPS band with non-zero difference; angle outside [0,2pi); distinct = distinct serialized case");
    rep.assume("equality threshold is three-valued: |difference| in [0.9 EPS, 1.1 EPS] accepts either answer");
    let w = workers();
    par_generated(rep, "ltwh", ltwh_case, env.tier.pick(1_000_000, 20_000_000), w, check_ltwh);
    par_generated(rep, "polygon", poly_case, env.tier.pick(1_000_000, 20_000_000), w, check_poly);
    par_generated(rep, "edited-polygon", edited_case, env.tier.pick(500_000, 8_000_000), w, check_edited);
    par_generated(rep, "equality", eq_case, env.tier.pick(2_000_000, 40_000_000), w, check_eq);
    par_generated(rep, "equality-multi", eq_multi, env.tier.pick(1_000_000, 20_000_000), w, check_eq_multi);
    par_generated(rep, "normalize", angle_case, env.tier.pick(1_000_000, 20_000_000), w, check_angle);
}

pub fn replay(sub: &str, case: Value) -> Option<CaseResult> {
    match sub {
        "ltwh" => Some(replay_case(case, check_ltwh, sub)),
        "polygon" => Some(replay_case(case, check_poly, sub)),
        "edited-polygon" => Some(replay_case(case, check_edited, sub)),
        "equality" => Some(replay_case(case, check_eq, sub)),
        "equality-multi" => Some(replay_case(case, check_eq_multi, sub)),
        "normalize" => Some(replay_case(case, check_angle, sub)),
        _ => None,
    }
}
