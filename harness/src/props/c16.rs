//! C16 Feature packing and distance functions against scalar f64 definitions.

use crate::core::*;
use crate::ensure;
use proptest::prelude::*;
use serde::{Deserialize, Serialize};
use serde_json::Value;
use similari::distance::{cosine, euclidean};
use similari::track::utils::FromVec;
use similari::track::Feature;

fn value() -> impl Strategy<Value = f32> + Clone {
    prop_oneof![
        6 => ((1e-3f32.ln()..1e3f32.ln()), any::<bool>()).prop_map(|(l, s): (f32, bool)| if s { -l.exp() } else { l.exp() }),
        1 => Just(0.0f32),
        // (a draw closer to zero than the smallest stated magnitude is zero: squares of values
        // below ~1e-19 are not representable in f32, which is outside "several magnitudes")
        2 => (-1.0f32..1.0).prop_map(|x| if x.abs() < 1e-6 { 0.0 } else { x }),
        1 => (-8i32..8).prop_map(|k| k as f32),
    ]
}

/// vectors whose elements share a magnitude class (all small / all large / mixed)
pub fn vec_len(n: usize) -> impl Strategy<Value = Vec<f32>> + Clone {
    (dense_len(n), prop_oneof![5 => Just(0u8), 2 => Just(1u8), 1 => Just(2u8)], any::<u32>(), any::<u64>()).prop_map(|(v, mode, blocks, comps)| {
        // sparse vectors: whole aligned blocks of eight and / or single components set to zero
        let mut v = v;
        if mode >= 1 {
            for (i, x) in v.iter_mut().enumerate() {
                if (blocks >> ((i / 8) % 32)) & 1 == 1 {
                    *x = 0.0;
                }
            }
        }
        if mode == 2 {
            for (i, x) in v.iter_mut().enumerate() {
                if (comps >> (i % 64)) & 1 == 1 {
                    *x = 0.0;
                }
            }
        }
        v
    })
}

/// any finite bit pattern: subnormals, signed zeros, extreme exponents
pub fn raw_len(n: usize) -> impl Strategy<Value = Vec<f32>> + Clone {
    proptest::collection::vec(prop_oneof![
        4 => any::<u32>().prop_map(f32::from_bits).prop_filter_map("finite", |x| if x.is_finite() { Some(x) } else { None }),
        2 => (0u32..0x0080_0000, any::<bool>()).prop_map(|(m, s)| f32::from_bits(m | if s { 0x8000_0000 } else { 0 })),
        1 => prop_oneof![Just(0.0f32), Just(-0.0f32), Just(f32::MAX), Just(f32::MIN), Just(f32::MIN_POSITIVE), Just(-f32::MIN_POSITIVE)],
    ], n)
}

fn dense_len(n: usize) -> impl Strategy<Value = Vec<f32>> + Clone {
    (proptest::collection::vec(value(), n), prop_oneof![4 => Just(1.0f32), 1 => Just(1e-3f32), 1 => Just(1e-2f32), 1 => Just(30.0f32)], any::<bool>()).prop_map(|(v, scale, unit)| {
        if scale == 1.0 {
            v
        } else if unit {
            // same magnitude for every element
            v.iter().map(|x| if *x == 0.0 { 0.0 } else { x.signum() * scale * (1.0 + (x.abs().ln().abs() % 1.0)) }).collect()
        } else {
            v.iter().map(|x| (x * scale).clamp(-1e3, 1e3)).collect()
        }
    })
}

fn pad8(v: &[f32]) -> Vec<f32> {
    let mut r = v.to_vec();
    while r.len() % 8 != 0 {
        r.push(0.0);
    }
    r
}

#[derive(Clone, Debug, Serialize, Deserialize)]
pub struct RoundTrip {
    pub v: Vec<f32>,
}

pub fn check_roundtrip(c: &RoundTrip) -> CaseResult {
    let f = Feature::from_vec(&c.v);
    let f2 = Feature::from_vec(c.v.clone());
    let back: Vec<f32> = Vec::from_vec(&f);
    let back2: Vec<f32> = Vec::from_vec(&f2);
    let expect = pad8(&c.v);
    let bits = |v: &[f32]| v.iter().map(|x| x.to_bits()).collect::<Vec<_>>();
    ensure!(bits(&back) == bits(&back2), "roundtrip-variants", "from_vec(&Vec) and from_vec(Vec) differ");
    // an owned vector that was grown, reserved or truncated: its spare capacity is not part of it
    let spare = 1 + (c.v.len() * 7 + c.v.first().map(|x| x.to_bits() as usize % 23).unwrap_or(3)) % 40;
    let mut grown: Vec<f32> = Vec::with_capacity(c.v.len() + spare);
    grown.extend_from_slice(&c.v);
    let back3: Vec<f32> = Vec::from_vec(&Feature::from_vec(grown));
    ensure!(bits(&back) == bits(&back3), "roundtrip-spare-capacity", "from_vec(Vec) of a vector of {} values with {} spare capacity packs to {} values, from_vec(&Vec) to {}", c.v.len(), spare, back3.len(), back.len());
    let mut truncated = c.v.clone();
    truncated.extend(std::iter::repeat(1.5f32).take(spare));
    truncated.truncate(c.v.len());
    let back4: Vec<f32> = Vec::from_vec(&Feature::from_vec(truncated));
    ensure!(bits(&back) == bits(&back4), "roundtrip-truncated", "from_vec(Vec) of a vector truncated from {} to {} values gives {:?}", c.v.len() + spare, c.v.len(), back4);
    if c.v.is_empty() {
        ensure!(back.is_empty() || bits(&back) == vec![0u32; 8], "roundtrip-empty", "empty vector packs to {:?}", back);
    } else {
        ensure!(back.len() == expect.len(), "roundtrip-length", "length {} packs to {} values, expected {}", c.v.len(), back.len(), expect.len());
        ensure!(bits(&back) == bits(&expect), "roundtrip-values", "round trip of {:?} gives {:?}", c.v, back);
    }
    Ok(CaseOk::new(c.v.len() % 8 != 0)
        .label_if(c.v.len() % 8 == 0, "lane_multiple")
        .label_if(c.v.iter().any(|x| *x != 0.0 && !x.is_normal()), "subnormal_component")
        .label_if(c.v.iter().any(|x| x.to_bits() == 0x8000_0000), "negative_zero"))
}

#[derive(Clone, Debug, Serialize, Deserialize)]
pub struct DistCase {
    pub a: Vec<f32>,
    pub b: Vec<f32>,
    pub c: Vec<f32>,
    pub k: f32,
}

fn ref_euclid(a: &[f32], b: &[f32]) -> (f64, f64) {
    let (pa, pb) = (pad8(a), pad8(b));
    let n = pa.len().min(pb.len());
    let mut s = 0.0f64;
    for i in 0..n {
        let d = pa[i] as f64 - pb[i] as f64;
        s += d * d;
    }
    (s.sqrt(), n as f64)
}

/// returns (cosine, conditioning = sum|a_i b_i| / (|a||b|))
fn ref_cosine(a: &[f32], b: &[f32]) -> Option<(f64, f64)> {
    let (pa, pb) = (pad8(a), pad8(b));
    let n = pa.len().min(pb.len());
    let (mut dot, mut adot, mut na, mut nb) = (0.0f64, 0.0f64, 0.0f64, 0.0f64);
    for i in 0..n {
        dot += pa[i] as f64 * pb[i] as f64;
        adot += (pa[i] as f64 * pb[i] as f64).abs();
        na += (pa[i] as f64).powi(2);
        nb += (pb[i] as f64).powi(2);
    }
    if na == 0.0 || nb == 0.0 {
        return None;
    }
    let den = (na * nb).sqrt();
    Some((dot / den, adot / den))
}

/// The statement does not pin whether an empty vector packs to nothing or to one zero block:
/// the check accepts either reading, consistently for the whole case.
pub fn check_dist(c: &DistCase) -> CaseResult {
    // shrinking moves values towards zero: a non-zero component whose square underflows f32 is
    // outside the stated domain (magnitudes 1e-3..1e3) and is not judged
    if c.a.iter().chain(c.b.iter()).chain(c.c.iter()).any(|x| *x != 0.0 && x.abs() < 1e-9) {
        return Ok(CaseOk::trivial().label("component_below_the_stated_magnitudes_skipped"));
    }
    let has_empty = c.a.is_empty() || c.b.is_empty() || c.c.is_empty();
    if !has_empty {
        return check_dist_inner(c);
    }
    let fill = |v: &Vec<f32>| if v.is_empty() { vec![0.0f32; 8] } else { v.clone() };
    // reading 1: empty = one zero block (then it is an ordinary zero vector)
    let as_block = DistCase { a: fill(&c.a), b: fill(&c.b), c: fill(&c.c), k: c.k };
    let r1 = check_dist_with(c, &as_block);
    if r1.is_ok() {
        return r1;
    }
    // reading 2: empty = no blocks
    check_dist_inner(c)
}

fn check_dist_inner(c: &DistCase) -> CaseResult {
    check_dist_with(c, c)
}

/// `c` is handed to the implementation, `r` to the reference.
fn check_dist_with(c: &DistCase, r: &DistCase) -> CaseResult {
    let fa = Feature::from_vec(&c.a);
    let fb = Feature::from_vec(&c.b);
    let fc = Feature::from_vec(&c.c);
    let rel = 1e-4;
    // Euclidean
    let (re_ab, _) = ref_euclid(&r.a, &r.b);
    let e_ab = euclidean(&fa, &fb) as f64;
    let e_ba = euclidean(&fb, &fa) as f64;
    // scale of the terms for the absolute part of the tolerance (cancellation in a-b)
    let scale = c.a.iter().chain(c.b.iter()).fold(0.0f64, |m, x| m.max(x.abs() as f64));
    let etol = |r: f64| rel * r + 1e-6 * scale + 1e-30;
    ensure!((e_ab - re_ab).abs() <= etol(re_ab), "euclid-value", "euclidean={} reference={}", e_ab, re_ab);
    ensure!((e_ab - e_ba).abs() <= 1e-6 * e_ab.abs(), "euclid-symmetry", "euclidean(a,b)={} euclidean(b,a)={}", e_ab, e_ba);
    let e_aa = euclidean(&fa, &fa);
    ensure!(e_aa == 0.0, "euclid-identity", "euclidean(a,a)={}", e_aa);
    let e_bc = euclidean(&fb, &fc) as f64;
    let e_ac = euclidean(&fa, &fc) as f64;
    // triangle inequality on the common prefix only makes sense when all three have the same
    // packed length (otherwise the three distances are over different prefixes)
    let same_packed = pad8(&r.a).len() == pad8(&r.b).len() && pad8(&r.b).len() == pad8(&r.c).len();
    if same_packed {
        let sc3 = scale.max(c.c.iter().fold(0.0f64, |m, x| m.max(x.abs() as f64)));
        ensure!(e_ac <= e_ab + e_bc + rel * (e_ab + e_bc) + 1e-6 * sc3, "euclid-triangle",
            "d(a,c)={} > d(a,b)+d(b,c)={}", e_ac, e_ab + e_bc);
    }
    // Cosine
    let mut cos_checked = false;
    if let Some((rc, cond)) = ref_cosine(&r.a, &r.b) {
        cos_checked = true;
        let c_ab = cosine(&fa, &fb) as f64;
        let c_ba = cosine(&fb, &fa) as f64;
        let ctol = rel * cond.max(1.0) + 1e-6;
        ensure!(c_ab.is_finite(), "cosine-finite", "cosine of non-zero vectors is {}", c_ab);
        ensure!((c_ab - rc).abs() <= ctol, "cosine-value", "cosine={} reference={}", c_ab, rc);
        ensure!((c_ab - c_ba).abs() <= 1e-6, "cosine-symmetry", "cosine(a,b)={} cosine(b,a)={}", c_ab, c_ba);
        ensure!((-1.0 - 1e-5..=1.0 + 1e-5).contains(&c_ab), "cosine-range", "cosine={} outside [-1,1]", c_ab);
        // positive scaling
        let ka: Vec<f32> = r.a.iter().map(|x| x * c.k).collect();
        if ref_cosine(&ka, &r.b).is_some() {
            let c_ka = cosine(&Feature::from_vec(&ka), &fb) as f64;
            // k*a is rounded per element: compare against the reference of the rounded vector
            let (rk, condk) = ref_cosine(&ka, &r.b).unwrap();
            ensure!((c_ka - rk).abs() <= rel * condk.max(1.0) + 1e-6, "cosine-scale", "cosine(k a, b)={} reference={}", c_ka, rk);
            ensure!((c_ka - c_ab).abs() <= 2.0 * ctol + 1e-5, "cosine-scale", "cosine(a,b)={} but cosine({} a, b)={}", c_ab, c.k, c_ka);
        }
    }
    if ref_cosine(&r.a, &r.a).is_some() {
        let c_aa = cosine(&fa, &fa) as f64;
        ensure!((c_aa - 1.0).abs() <= 1e-5, "cosine-parallel", "cosine(a,a)={}", c_aa);
        let ka: Vec<f32> = r.a.iter().map(|x| x * c.k).collect();
        let na: Vec<f32> = r.a.iter().map(|x| -x * c.k).collect();
        if ref_cosine(&ka, &r.a).is_some() {
            let p = cosine(&Feature::from_vec(&ka), &fa) as f64;
            let o = cosine(&Feature::from_vec(&na), &fa) as f64;
            ensure!((p - 1.0).abs() <= 1e-4, "cosine-parallel", "cosine(k a, a)={} for k={}", p, c.k);
            ensure!((o + 1.0).abs() <= 1e-4, "cosine-opposite", "cosine(-k a, a)={} for k={}", o, c.k);
        }
    }
    let diff_len = pad8(&r.a).len() != pad8(&r.b).len();
    Ok(CaseOk::new(c.a.len() % 8 != 0 || diff_len)
        .label_if(diff_len, "different_packed_lengths")
        .label_if(cos_checked, "cosine_checked")
        .label_if(pad8(&r.a).chunks(8).zip(pad8(&r.b).chunks(8)).any(|(x, y)| x.iter().all(|v| *v == 0.0) != y.iter().all(|v| *v == 0.0)), "zero_block_against_nonzero_block")
        .label_if(same_packed, "triangle_checked"))
}

pub fn dist_case(la: usize, lb: usize, lc: usize) -> impl Strategy<Value = DistCase> {
    (vec_len(la), vec_len(lb), vec_len(lc), (0.01f32.ln()..100f32.ln()).prop_map(|x: f32| x.exp()), any::<bool>())
        .prop_map(|(a, b, c, k, near)| {
            // sometimes b is a small perturbation of a (distance ~ 0, cosine ~ 1)
            let b = if near && a.len() == b.len() { a.iter().zip(b.iter()).map(|(x, y)| x + 1e-3 * y).collect() } else { b };
            DistCase { a, b, c, k }
        })
}

pub fn run(env: &Env, rep: &Report) {
    stall_watchdog(300);
    rep.set_rule("every vector length 0..=130 (exhaustive over lengths) x random values (1e-3..1e3 with signs, zeros, small integers; sparse variants with whole aligned blocks or single components zeroed; for the round trip also arbitrary finite bit patterns incl. subnormals and signed zeros); distance cases over all length pairs drawn from 0..=130 incl. different lengths, triples for the triangle inequality, positive scalings. Non-trivial: length not a multiple of 8 or two different packed lengths; distinct = distinct serialized case");
    rep.assume("reference: scalar f64 formulas on zero-padded vectors truncated to the common packed prefix; relative tolerance 1e-4 (conditioning-aware for cosine)");
    let per_len = env.tier.pick(1500u32, 20000);
    for len in 0..=130usize {
        run_generated(rep, "roundtrip", vec_len(len).prop_map(|v| RoundTrip { v }), per_len, mix(rep.seed, len as u64), check_roundtrip);
        run_generated(rep, "roundtrip", raw_len(len).prop_map(|v| RoundTrip { v }), per_len / 2, mix(rep.seed, 1000 + len as u64), check_roundtrip);
    }
    // the statement says "any length": the usual embedding sizes and their neighbours as well
    const LONG: [usize; 12] = [247, 248, 249, 255, 256, 257, 383, 512, 513, 1024, 2048, 4099];
    for len in LONG {
        run_generated(rep, "roundtrip", vec_len(len).prop_map(|v| RoundTrip { v }), per_len / 10, mix(rep.seed, 2000 + len as u64), check_roundtrip);
    }
    rep.note("roundtrip", "lengths 0..=130 each enumerated, plus 247, 248, 249, 255, 256, 257, 383, 512, 513, 1024, 2048, 4099".into());
    // distances: every length for a (exhaustive), b of equal / neighbouring / random length
    let per = env.tier.pick(500u32, 6000);
    let w = workers();
    let mut lens: Vec<usize> = (0..=130).collect();
    lens.extend(LONG);
    std::thread::scope(|s| {
        for chunk in lens.chunks((lens.len() + w - 1) / w) {
            let chunk = chunk.to_vec();
            s.spawn(move || {
                for la in chunk {
                    if la > 130 {
                        for (k, lb) in [la, la + 1, 512].into_iter().enumerate() {
                            run_generated(rep, "distance", dist_case(la, lb, la), per / 10, mix(rep.seed, (la * 16 + k) as u64), check_dist);
                        }
                        continue;
                    }
                    for (k, lb) in [la, la + 1, (la + 8) % 131, (la * 7 + 3) % 131, 130 - la].into_iter().enumerate() {
                        let lb = lb.min(130);
                        run_generated(rep, "distance", dist_case(la, lb, la), per, mix(rep.seed, (la * 16 + k) as u64), check_dist);
                    }
                }
            });
        }
    });
}

pub fn replay(sub: &str, case: Value) -> Option<CaseResult> {
    match sub {
        "roundtrip" => Some(replay_case(case, check_roundtrip, sub)),
        "distance" => Some(replay_case(case, check_dist, sub)),
        _ => None,
    }
}
