//! C17 Voting engines: vote counting, weights, top-N order, one winner per track.

use crate::core::*;
use crate::ensure;
use proptest::prelude::*;
use serde::{Deserialize, Serialize};
use serde_json::Value;
use similari::track::ObservationMetricOk;
use similari::utils::bbox::Universal2DBox;
use similari::voting::best::BestFitVoting;
use similari::voting::topn::{TopNVoting, TopNVotingElt};
use similari::voting::Voting;
use std::collections::{BTreeMap, HashMap};

#[derive(Clone, Debug, Serialize, Deserialize)]
pub struct StreamCase {
    /// (query index, track index, distance)
    pub items: Vec<(u8, u8, Option<f32>)>,
    pub topn: usize,
    pub min_votes: usize,
    pub max_distance: f32,
    /// permutations of the stream to compare (each a list of sort keys)
    pub perms: Vec<Vec<u32>>,
    /// query ids and track ids come from one id space (a query may carry the id of a track)
    #[serde(default)]
    pub shared_ids: bool,
}

thread_local! {
    static SHARED_IDS: std::cell::Cell<bool> = const { std::cell::Cell::new(false) };
}

fn qid(q: u8) -> u64 {
    if SHARED_IDS.with(|s| s.get()) {
        return 3 + q as u64;
    }
    1000 + q as u64
}
fn tid(t: u8) -> u64 {
    1 + t as u64
}

fn to_stream(c: &StreamCase, perm: Option<&Vec<u32>>) -> Vec<ObservationMetricOk<Universal2DBox>> {
    let mut idx: Vec<usize> = (0..c.items.len()).collect();
    if let Some(p) = perm {
        idx.sort_by_key(|&i| (p.get(i).copied().unwrap_or(0), i));
    }
    idx.iter()
        .map(|&i| {
            let (q, t, d) = c.items[i];
            ObservationMetricOk::new(qid(q), tid(t), None, d)
        })
        .collect()
}

/// reference: eligible claims (query, track) -> weight
fn reference(c: &StreamCase) -> BTreeMap<(u64, u64), f64> {
    let mut largest = f64::NEG_INFINITY;
    for (_, _, d) in &c.items {
        if let Some(d) = d {
            largest = largest.max(*d as f64);
        }
    }
    let mut groups: BTreeMap<(u64, u64), Vec<f64>> = BTreeMap::new();
    for (q, t, d) in &c.items {
        if let Some(d) = d {
            if *d <= c.max_distance {
                groups.entry((qid(*q), tid(*t))).or_default().push(*d as f64);
            }
        }
    }
    groups
        .into_iter()
        .filter(|(_, v)| v.len() >= c.min_votes)
        .map(|(k, v)| (k, v.iter().map(|d| largest - d).sum()))
        .collect()
}

thread_local! {
    /// magnitude of the distances of the case being checked (weights are sums of f32 differences)
    static SCALE: std::cell::Cell<f64> = const { std::cell::Cell::new(3.0) };
}

thread_local! {
    /// largest number of distances of one (query, track) pair in the case being checked
    static VOTES: std::cell::Cell<f64> = const { std::cell::Cell::new(5.0) };
}

/// A weight is a sum over the votes of fl32(largest - d), each term rounded by at most half an ulp
/// of a value no larger than the distance magnitude (6e-8 x magnitude); two weights are compared
/// by the library on their rounded values, hence twice that per vote, plus a relative part for
/// the f64 summation order.
fn wtol(w: f64) -> f64 {
    1e-6 * w.abs() + 1.3e-7 * VOTES.with(|s| s.get()) * SCALE.with(|s| s.get())
}

fn check_topn_result(c: &StreamCase, claims: &BTreeMap<(u64, u64), f64>, res: &HashMap<u64, Vec<TopNVotingElt>>) -> Result<(), Fail> {
    let mut by_q: BTreeMap<u64, Vec<(u64, f64)>> = BTreeMap::new();
    for ((q, t), w) in claims {
        by_q.entry(*q).or_default().push((*t, *w));
    }
    for (q, list) in res {
        ensure!(list.is_empty() || by_q.contains_key(q), "topn-foreign-query", "result for query {} which has no eligible track", q);
    }
    for (q, elig) in &by_q {
        let empty = vec![];
        let list = res.get(q).unwrap_or(&empty);
        let expect_len = elig.len().min(c.topn);
        ensure!(list.len() == expect_len, "topn-count", "query {} gets {} tracks, expected min(N={}, eligible={})", q, list.len(), c.topn, elig.len());
        let mut seen = std::collections::HashSet::new();
        let mut minw = f64::INFINITY;
        for (k, e) in list.iter().enumerate() {
            ensure!(e.query_track == *q, "topn-shape", "element of query {} carries query {}", q, e.query_track);
            ensure!(seen.insert(e.winner_track), "topn-duplicate", "track {} listed twice for query {}", e.winner_track, q);
            let rw = match claims.get(&(*q, e.winner_track)) {
                Some(w) => *w,
                None => return Err(Fail::new("topn-ineligible", format!("query {} is given track {} which has fewer than min_votes={} distances within max_distance={}", q, e.winner_track, c.min_votes, c.max_distance))),
            };
            ensure!((e.weight - rw).abs() <= wtol(rw), "topn-weight", "weight of ({}, {}) is {} but sum(largest - d) = {}", q, e.winner_track, e.weight, rw);
            if k > 0 {
                ensure!(list[k - 1].weight >= e.weight - wtol(rw), "topn-order", "weights of query {} not in decreasing order: {} then {}", q, list[k - 1].weight, e.weight);
            }
            minw = minw.min(rw);
        }
        for (t, w) in elig {
            if !seen.contains(t) {
                ensure!(*w <= minw + wtol(*w), "topn-dropped-heavier", "query {}: track {} with weight {} left out while a lighter one ({}) is listed", q, t, w, minw);
            }
        }
    }
    Ok(())
}

fn check_best_result(claims: &BTreeMap<(u64, u64), f64>, res: &HashMap<u64, Vec<TopNVotingElt>>) -> Result<(), Fail> {
    let mut by_q: BTreeMap<u64, Vec<(u64, f64)>> = BTreeMap::new();
    let mut by_t: BTreeMap<u64, Vec<(u64, f64)>> = BTreeMap::new();
    for ((q, t), w) in claims {
        by_q.entry(*q).or_default().push((*t, *w));
        by_t.entry(*t).or_default().push((*q, *w));
    }
    let mut won: BTreeMap<u64, (u64, f64)> = BTreeMap::new();
    for (q, list) in res {
        let elig = match by_q.get(q) {
            Some(e) => e,
            None => {
                ensure!(list.is_empty(), "best-foreign-query", "result for query {} which has no claim", q);
                continue;
            }
        };
        ensure!(list.len() == elig.len(), "best-claim-count", "query {} has {} claims but {} result elements", q, elig.len(), list.len());
        // every claim appears once: match elements to claims by weight (lost claims carry the query id)
        let mut remaining: Vec<(u64, f64)> = elig.clone();
        for (k, e) in list.iter().enumerate() {
            ensure!(e.query_track == *q, "best-shape", "element of query {} carries query {}", q, e.query_track);
            if k > 0 {
                ensure!(list[k - 1].weight >= e.weight - wtol(e.weight), "best-order", "claims of query {} not ordered by decreasing weight", q);
            }
        }
        // won claims name their track; lost claims (winner = the query itself) are matched by weight
        for pass in 0..2 {
            for e in list.iter() {
                let is_won = e.winner_track != *q;
                if (pass == 0) != is_won {
                    continue;
                }
                let pos = if is_won {
                    remaining.iter().position(|(t, _)| *t == e.winner_track)
                } else {
                    remaining.iter().position(|(_, w)| (*w - e.weight).abs() <= wtol(*w))
                };
                let pos = match pos {
                    Some(p) => p,
                    None => return Err(Fail::new("best-unknown-claim", format!("query {}: element (winner {}, weight {}) matches none of its claims {:?}", q, e.winner_track, e.weight, elig))),
                };
                let (t, w) = remaining.remove(pos);
                ensure!((e.weight - w).abs() <= wtol(w), "best-weight", "weight of claim ({}, {}) is {} but sum(largest - d) = {}", q, t, e.weight, w);
                if is_won {
                    if let Some((other, _)) = won.insert(t, (*q, w)) {
                        return Err(Fail::new("best-track-twice", format!("track {} awarded to queries {} and {}", t, other, q)));
                    }
                }
            }
        }
    }
    for (q, _) in &by_q {
        ensure!(res.contains_key(q), "best-missing-query", "query {} has claims but no result entry", q);
    }
    for (t, claimants) in &by_t {
        let heaviest = claimants.iter().fold(f64::NEG_INFINITY, |m, (_, w)| m.max(*w));
        match won.get(t) {
            None => return Err(Fail::new("best-unawarded", format!("track {} is claimed by {:?} but awarded to nobody", t, claimants))),
            Some((q, w)) => ensure!(*w >= heaviest - wtol(heaviest), "best-not-heaviest", "track {} goes to query {} (weight {}) although a claimant has weight {}", t, q, w, heaviest),
        }
    }
    Ok(())
}

fn canon(res: &HashMap<u64, Vec<TopNVotingElt>>) -> BTreeMap<u64, Vec<(u64, i64)>> {
    res.iter()
        .filter(|(_, v)| !v.is_empty())
        .map(|(q, v)| (*q, v.iter().map(|e| (e.winner_track, (e.weight * 1e4).round() as i64)).collect()))
        .collect()
}

pub fn check_stream(c: &StreamCase) -> CaseResult {
    SHARED_IDS.with(|s| s.set(c.shared_ids));
    let mag = c.items.iter().filter_map(|it| it.2).fold(0.0f64, |m, d| m.max(d.abs() as f64));
    SCALE.with(|s| s.set(if mag > 0.0 { mag } else { 3.0 }));
    let mut per_pair: BTreeMap<(u8, u8), usize> = BTreeMap::new();
    for it in &c.items {
        *per_pair.entry((it.0, it.1)).or_default() += 1;
    }
    VOTES.with(|s| s.set(per_pair.values().copied().max().unwrap_or(1).max(1) as f64));
    let r = check_stream_inner(c);
    SHARED_IDS.with(|s| s.set(false));
    SCALE.with(|s| s.set(3.0));
    r
}

fn check_stream_inner(c: &StreamCase) -> CaseResult {
    let claims = reference(c);
    // ties: two claims of one query (top-N order) or two claimants of one track (best fit) with
    // weights closer than the tolerance make the outcome legitimately order dependent
    let mut tie_free = true;
    let v: Vec<(&(u64, u64), &f64)> = claims.iter().collect();
    for i in 0..v.len() {
        for j in i + 1..v.len() {
            // (in units of the distances of the case: 1e-3 at the default magnitude of 3; never
            // finer than what the f32 weights can resolve)
            let tie = (1e-3 / 3.0 * SCALE.with(|s| s.get())).max(2.0 * wtol(v[i].1.abs().max(v[j].1.abs())));
            if (v[i].1 - v[j].1).abs() <= tie {
                tie_free = false;
            }
        }
    }
    let topn = TopNVoting::<Universal2DBox>::new(c.topn, c.max_distance, c.min_votes);
    let best = BestFitVoting::<Universal2DBox>::new(c.max_distance, c.min_votes);
    // an engine object serves one stream after another: what it answered before (a stream with
    // three times larger distances, hence a larger "largest distance seen") leaves no trace
    if c.items.len() % 3 == 1 {
        let decoy: Vec<ObservationMetricOk<Universal2DBox>> = to_stream(c, None).into_iter().map(|m| ObservationMetricOk::new(m.from, m.to, None, m.feature_distance.map(|d| d * 3.0 + 1.0))).collect();
        let _ = topn.winners(decoy.clone());
        let _ = best.winners(decoy);
    }
    let r_top = topn.winners(to_stream(c, None));
    let r_best = best.winners(to_stream(c, None));
    check_topn_result(c, &claims, &r_top)?;
    check_best_result(&claims, &r_best)?;
    for p in &c.perms {
        let rt = topn.winners(to_stream(c, Some(p)));
        let rb = best.winners(to_stream(c, Some(p)));
        check_topn_result(c, &claims, &rt).map_err(|f| Fail::new(f.signature, format!("(permuted stream) {}", f.msg)))?;
        check_best_result(&claims, &rb).map_err(|f| Fail::new(f.signature, format!("(permuted stream) {}", f.msg)))?;
        if tie_free {
            ensure!(canon(&rt) == canon(&r_top), "topn-order-dependent", "top-N result changes with the order of the stream");
            ensure!(canon(&rb) == canon(&r_best), "best-order-dependent", "best-fit result changes with the order of the stream");
        }
    }
    let mut by_t: BTreeMap<u64, usize> = BTreeMap::new();
    for ((_, t), _) in &claims {
        *by_t.entry(*t).or_default() += 1;
    }
    let contested = by_t.values().any(|n| *n >= 2);
    // did filtering remove a claim?
    let mut raw: std::collections::BTreeSet<(u64, u64)> = Default::default();
    for (q, t, d) in &c.items {
        if d.is_some() {
            raw.insert((qid(*q), tid(*t)));
        }
    }
    let filtered = raw.len() > claims.len();
    Ok(CaseOk::new(contested || filtered)
        .label_if(contested, "contested_track")
        .label_if(filtered, "claim_filtered")
        .label_if(!tie_free, "ties")
        .label_if(claims.is_empty(), "no_claims"))
}

// ---------------------------------------------------------------------------------------------
// VisualVoting: best-fit voting on feature distances first, Hungarian voting on the rest

#[derive(Clone, Debug, Serialize, Deserialize)]
pub struct VisualStream {
    /// (query, track, positional weight, feature distance)
    pub items: Vec<(u8, u8, Option<f32>, Option<f32>)>,
    pub threshold: f32,
    pub min_votes: usize,
    pub order: Vec<u32>,
}

pub fn check_visual_stream(c: &VisualStream) -> CaseResult {
    use similari::trackers::sort::VotingType;
    use similari::trackers::visual_sort::observation_attributes::VisualObservationAttributes;
    use similari::trackers::visual_sort::voting::VisualVoting;
    let mut idx: Vec<usize> = (0..c.items.len()).collect();
    idx.sort_by_key(|&i| (c.order.get(i).copied().unwrap_or(0), i));
    let stream: Vec<ObservationMetricOk<VisualObservationAttributes>> = idx.iter().map(|&i| {
        let (q, t, a, f) = c.items[i];
        ObservationMetricOk::new(qid(q), tid(t), a, f)
    }).collect();
    let res = VisualVoting::new(c.threshold, f32::MAX, c.min_votes).winners(stream);
    // reference claims
    let largest = c.items.iter().filter_map(|x| x.3).fold(f64::NEG_INFINITY, |m, d| m.max(d as f64));
    let mut groups: BTreeMap<(u64, u64), Vec<f64>> = BTreeMap::new();
    for (q, t, _, f) in &c.items {
        if let Some(d) = f {
            groups.entry((qid(*q), tid(*t))).or_default().push(*d as f64);
        }
    }
    let claims: BTreeMap<(u64, u64), f64> = groups.into_iter().filter(|(_, v)| v.len() >= c.min_votes).map(|(k, v)| (k, v.iter().map(|d| largest - d).sum())).collect();
    // ties make the outcome order dependent: only structural assertions then
    let ws: Vec<f64> = claims.values().cloned().collect();
    let mut tie = false;
    for i in 0..ws.len() {
        for j in i + 1..ws.len() {
            if (ws[i] - ws[j]).abs() <= 1e-3 {
                tie = true;
            }
        }
    }
    let mut used = std::collections::BTreeSet::new();
    for (q, v) in &res {
        ensure!(v.len() == 1, "visual-voting-shape", "query {} has {} winners", q, v.len());
        let (w, _) = v[0];
        if w != *q {
            ensure!(used.insert(w), "visual-voting-track-twice", "track {} awarded to two queries", w);
        }
    }
    let claimants: std::collections::BTreeSet<u64> = claims.keys().map(|k| k.0).collect();
    let mut taken = std::collections::BTreeSet::new();
    for q in &claimants {
        let v = match res.get(q) {
            Some(v) => v,
            None => return Err(Fail::new("visual-voting-missing-claimant", format!("query {} has an appearance claim but no result entry", q))),
        };
        let (w, vt) = v[0];
        ensure!(matches!(vt, VotingType::Visual), "visual-voting-type", "query {} has an appearance claim but is resolved positionally", q);
        if tie {
            continue;
        }
        // its heaviest claim, honoured iff nobody outweighs it there
        let (bt, bw) = claims.iter().filter(|(k, _)| k.0 == *q).map(|(k, w)| (k.1, *w)).fold((0u64, f64::NEG_INFINITY), |m, x| if x.1 > m.1 { x } else { m });
        let outweighed = claims.iter().any(|(k, w)| k.1 == bt && k.0 != *q && *w > bw);
        if outweighed {
            ensure!(w == *q, "visual-voting-loser-attached", "query {} lost track {} to a heavier claimant but is given {}", q, bt, w);
        } else {
            ensure!(w == bt, "visual-voting-claim-ignored", "query {}'s heaviest claim (track {}, weight {}) is not outweighed but it is given {}", q, bt, bw, w);
            taken.insert(bt);
        }
    }
    // positional part: claim-free queries on tracks not taken by appearance, gated by the threshold
    for (q, v) in &res {
        if claimants.contains(q) {
            continue;
        }
        let (w, vt) = v[0];
        ensure!(matches!(vt, VotingType::Positional), "visual-voting-type", "query {} has no appearance claim but is reported as visual", q);
        if w != *q {
            ensure!(!taken.contains(&w) || tie, "visual-voting-taken-track", "query {} is given track {} which was taken by appearance", q, w);
            let best = c.items.iter().filter(|x| qid(x.0) == *q && tid(x.1) == w).filter_map(|x| x.2).fold(f32::NEG_INFINITY, f32::max);
            ensure!(best >= c.threshold - 2e-6, "visual-voting-below-gate", "query {} is given track {} with positional weight {} below the threshold {}", q, w, best, c.threshold);
        }
    }
    let contested = {
        let mut by_t: BTreeMap<u64, usize> = BTreeMap::new();
        for (k, _) in &claims {
            *by_t.entry(k.1).or_default() += 1;
        }
        by_t.values().any(|n| *n >= 2)
    };
    Ok(CaseOk::new(contested || (!claimants.is_empty() && res.len() > claimants.len())).label_if(contested, "contested_track").label_if(tie, "ties"))
}

pub fn visual_stream() -> impl Strategy<Value = VisualStream> {
    (1u8..=5, 1u8..=5).prop_flat_map(|(nq, nt)| {
        (
            proptest::collection::vec((0..nq, 0..nt, prop_oneof![1 => Just(None), 2 => (0.0f32..1.0).prop_map(Some)], prop_oneof![2 => Just(None), 3 => (0.0f32..2.0).prop_map(Some)]), 0..30),
            prop_oneof![Just(0.3f32), 0.05f32..0.9],
            1usize..=3,
            proptest::collection::vec(any::<u32>(), 30),
        )
            .prop_map(|(items, threshold, min_votes, order)| VisualStream { items, threshold, min_votes, order })
    })
}

fn dist() -> impl Strategy<Value = Option<f32>> {
    prop_oneof![
        1 => Just(None),
        4 => (0u8..12).prop_map(|k| Some(k as f32 * 0.25)),
        5 => (0.0f32..3.0).prop_map(Some),
    ]
}

/// One or two queries facing a crowd: 17..60 tracks, N anywhere between 1 and the crowd size
/// (the statement puts no bound on the number of tracks a query is compared with).
pub fn wide_stream_case() -> impl Strategy<Value = StreamCase> {
    (1u8..=2, 17u8..=60).prop_flat_map(|(nq, nt)| {
        (
            proptest::collection::vec((0..nq, 0..nt, prop_oneof![1 => Just(None), 12 => (0.0f32..3.0).prop_map(Some)]), (nt as usize)..(3 * nt as usize)),
            prop_oneof![1 => 1usize..=2, 6 => 3usize..=(nt as usize), 1 => Just(usize::MAX)],
            1usize..=2,
            prop_oneof![Just(f32::MAX), 1.5f32..3.0],
            proptest::collection::vec(proptest::collection::vec(any::<u32>(), 180), 1..3),
        )
            .prop_map(|(items, topn, min_votes, max_distance, perms)| StreamCase { items, topn, min_votes, max_distance, perms, shared_ids: false })
    })
}

pub fn stream_case() -> impl Strategy<Value = StreamCase> {
    prop_oneof![12 => narrow_stream_case(), 1 => wide_stream_case()]
}

pub fn narrow_stream_case() -> impl Strategy<Value = StreamCase> {
    (1u8..=6, 1u8..=6).prop_flat_map(|(nq, nt)| {
        (
            proptest::collection::vec((0..nq, 0..nt, dist()), 0..40),
            prop_oneof![12 => 1usize..=4, 1 => Just(usize::MAX), 1 => Just(usize::MAX / 2), 1 => Just(1usize << 40)],
            1usize..=4,
            prop_oneof![Just(f32::MAX), 0.3f32..3.0, (0u8..12).prop_map(|k| k as f32 * 0.25)],
            proptest::collection::vec(proptest::collection::vec(any::<u32>(), 40), 1..4),
            proptest::bool::weighted(0.25),
            proptest::bool::weighted(0.15),
            prop_oneof![6 => Just(1.0f32), 1 => Just(1e-8f32), 1 => Just(1e-4f32), 1 => Just(1e4f32)],
        )
            .prop_map(|(mut items, topn, min_votes, max_distance, perms, shared_ids, negative, unit)| {
                // the metric's unit is arbitrary: the same structure at very small and large scales
                let mut max_distance = max_distance;
                if unit != 1.0 && !negative {
                    for it in items.iter_mut() {
                        it.2 = it.2.map(|d| d * unit);
                    }
                    if max_distance != f32::MAX {
                        max_distance *= unit;
                    }
                }
                if negative {
                    // a similarity-like metric reported as negated distance: all values in (-1, 0]
                    for it in items.iter_mut() {
                        it.2 = it.2.map(|d| -(d / 3.0).min(0.999));
                    }
                }
                if shared_ids {
                    // a track is never compared with itself: no claim (q, t) with the same id on both sides
                    items.retain(|it| 3 + it.0 as u64 != tid(it.1));
                }
                StreamCase { items, topn, min_votes, max_distance: if negative && max_distance != f32::MAX { -max_distance / 6.0 } else { max_distance }, perms, shared_ids }
            })
    })
}

/// All permutations of small streams.
fn small_stream_permutations(seed: u64, count: usize) -> Vec<StreamCase> {
    let mut out = vec![];
    for k in 0..count {
        let base = sample_one(&(proptest::collection::vec((0u8..2, 0u8..2, dist()), 2..=5), 1usize..=2, 1usize..=2, prop_oneof![Just(f32::MAX), 0.3f32..3.0]), mix(seed, k as u64));
        let (items, topn, min_votes, max_distance) = base;
        let n = items.len();
        // all n! permutations as key vectors
        let mut perms = vec![];
        let mut idx: Vec<u32> = (0..n as u32).collect();
        fn heap(k: usize, a: &mut Vec<u32>, out: &mut Vec<Vec<u32>>) {
            if k == 1 {
                out.push(a.clone());
                return;
            }
            heap(k - 1, a, out);
            for i in 0..k - 1 {
                if k % 2 == 0 { a.swap(i, k - 1) } else { a.swap(0, k - 1) }
                heap(k - 1, a, out);
            }
        }
        heap(n, &mut idx, &mut perms);
        out.push(StreamCase { items, topn, min_votes, max_distance, perms, shared_ids: k % 3 == 0 });
    }
    out
}

pub fn run(env: &Env, rep: &Report) {
    stall_watchdog(300);
    rep.set_rule("result streams over <=6 queries x <=6 tracks, 0..40 items (one stream in thirteen: 1-2 queries facing 17..60 tracks, N between 1 and the crowd size), distances on a tie-prone grid or continuous, some absent, all N/min_votes in 1..4, max_distance below/inside/above the range; 1-3 random permutations per stream, and all n! permutations of streams of 2..5 items. Oracle: counting rules re-implemented in f64 from the statement. Non-trivial: two queries claim one track, or min_votes/max_distance removes a claim; distinct = distinct serialized case");
    rep.assume("weights compared within 1e-6 relative + 1e-5; weights closer than 1e-3 are ties (either order / either winner accepted, order independence asserted only for tie-free streams)");
    par_generated(rep, "streams", stream_case, env.tier.pick(1_500_000, 30_000_000), workers(), check_stream);
    // Hungarian voting: structural contract (optimality is C02's business; same checker)
    par_generated(rep, "hungarian", crate::props::c02::random_matrix, env.tier.pick(600_000, 8_000_000), workers(), crate::props::c02::check_matrix);
    par_generated(rep, "visual-voting", visual_stream, env.tier.pick(600_000, 8_000_000), workers(), check_visual_stream);
    let perms = small_stream_permutations(rep.seed, env.tier.pick(30_000, 400_000));
    run_enumerated(rep, "all-permutations", perms.into_iter(), check_stream);
}

pub fn replay(sub: &str, case: Value) -> Option<CaseResult> {
    match sub {
        "streams" | "all-permutations" => Some(replay_case(case, check_stream, sub)),
        "hungarian" => Some(replay_case(case, crate::props::c02::check_matrix, sub)),
        "visual-voting" => Some(replay_case(case, check_visual_stream, sub)),
        _ => None,
    }
}
