//! C02 Gated, maximum-weight assignment. Level A: the voting engine on generated weight
//! matrices (exhaustive small grids + random up to 8x8). Level B (tracker histories) lives in
//! `tracker_level` and is wired in by `run`.

use crate::core::*;
use crate::ensure;
use crate::oracle::assign;
use proptest::prelude::*;
use serde::{Deserialize, Serialize};
use serde_json::Value;
use similari::track::ObservationMetricOk;
use similari::trackers::sort::voting::SortVoting;
use similari::utils::bbox::Universal2DBox;
use similari::voting::Voting;
use std::collections::HashMap;

#[derive(Clone, Debug, Serialize, Deserialize)]
pub struct MatrixCase {
    pub t: f32,
    pub dets: usize,
    pub tracks: usize,
    /// row-major dets x tracks; None = no distance reported for the pair
    pub w: Vec<Option<f32>>,
    /// arrival order of the stream = pairs sorted by these keys
    pub order: Vec<u32>,
    /// candidates / tracks known to the engine that never appear in the stream
    pub extra_dets: usize,
    pub extra_tracks: usize,
    /// id scheme: false = small consecutive ids, true = scattered 64-bit ids
    pub big_ids: bool,
}

fn det_id(c: &MatrixCase, i: usize) -> u64 {
    if c.big_ids { mix(0xD37, i as u64) | 1 } else { 10 + i as u64 }
}
fn trk_id(c: &MatrixCase, j: usize) -> u64 {
    if c.big_ids { mix(0x7AC, j as u64) | 1 } else { 100 + j as u64 }
}

pub fn check_matrix(c: &MatrixCase) -> CaseResult {
    let mut stream = vec![];
    for i in 0..c.dets {
        for j in 0..c.tracks {
            if let Some(w) = c.w[i * c.tracks + j] {
                let key = c.order.get(i * c.tracks + j).copied().unwrap_or(0);
                stream.push((key, i, j, w));
            }
        }
    }
    stream.sort_by_key(|x| x.0);
    let items: Vec<ObservationMetricOk<Universal2DBox>> = stream
        .iter()
        .map(|&(_, i, j, w)| ObservationMetricOk::new(det_id(c, i), trk_id(c, j), Some(w), None))
        .collect();
    let present_dets: Vec<usize> = (0..c.dets).filter(|&i| (0..c.tracks).any(|j| c.w[i * c.tracks + j].is_some())).collect();
    let present_tracks: Vec<usize> = (0..c.tracks).filter(|&j| (0..c.dets).any(|i| c.w[i * c.tracks + j].is_some())).collect();
    let engine = SortVoting::new(c.t, c.dets + c.extra_dets, present_tracks.len() + c.extra_tracks);
    let winners: HashMap<u64, Vec<u64>> = engine.winners(items);
    let track_count = present_tracks.len() + c.extra_tracks;

    // reference problem over the detections that appear in the stream
    let w64: Vec<Vec<Option<f64>>> = present_dets
        .iter()
        .map(|&i| (0..c.tracks).map(|j| c.w[i * c.tracks + j].map(|x| x as f64)).collect())
        .collect();
    let t = c.t as f64;
    let mut assign_impl: Vec<Option<usize>> = vec![];
    let mut used = std::collections::HashSet::new();
    if track_count == 0 {
        ensure!(winners.is_empty(), "hungarian-empty", "winners reported although the engine was told there are no tracks");
        return Ok(CaseOk::trivial().label("no_tracks"));
    }
    for &i in &present_dets {
        let v = winners.get(&det_id(c, i));
        let v = match v {
            Some(v) => v,
            None => return Err(Fail::new("hungarian-missing-query", format!("detection {} appears in the stream but has no entry in the result", i))),
        };
        ensure!(v.len() == 1, "hungarian-shape", "detection {} has {} winners", i, v.len());
        if v[0] == det_id(c, i) {
            assign_impl.push(None);
        } else {
            let j = (0..c.tracks).find(|&j| trk_id(c, j) == v[0]);
            let j = match j {
                Some(j) => j,
                None => return Err(Fail::new("hungarian-foreign-winner", format!("detection {} is given {} which is neither itself nor a track", i, v[0]))),
            };
            ensure!(c.w[i * c.tracks + j].is_some(), "hungarian-unreported-pair", "detection {} assigned to track {} although no distance was reported for the pair", i, j);
            ensure!(used.insert(j), "hungarian-track-twice", "track {} assigned to two detections", j);
            assign_impl.push(Some(j));
        }
    }
    for (k, _) in winners.iter() {
        ensure!(present_dets.iter().any(|&i| det_id(c, i) == *k), "hungarian-foreign-query", "result has an entry for {} which is not a detection of the stream", k);
    }
    let wmax = c.w.iter().flatten().fold(t.abs(), |m, x| m.max(x.abs() as f64));
    let tol = present_dets.len() as f64 * (2e-6 + 4e-7 * wmax);
    let total_impl = assign::total(&w64, t, &assign_impl).unwrap();
    let (opt, opt_assign) = assign::solve(&w64, t);
    ensure!(total_impl >= opt - tol, "hungarian-suboptimal",
        "assignment {:?} has total {} but {:?} reaches {} (threshold {})", assign_impl, total_impl, opt_assign, opt, t);
    // gate: a pair clearly below the threshold is never chosen
    let mut near_gate = false;
    for (r, a) in assign_impl.iter().enumerate() {
        if let Some(j) = a {
            let w = w64[r][*j].unwrap();
            ensure!(w >= t - tol.max(2e-6), "hungarian-below-gate", "pair with weight {} chosen below the threshold {}", w, t);
        }
    }
    for row in &w64 {
        for x in row.iter().flatten() {
            if (x - t).abs() <= 0.05 {
                near_gate = true;
            }
        }
    }
    let g1 = assign::total(&w64, t, &assign::greedy_rows(&w64, t)).unwrap();
    let g2 = assign::total(&w64, t, &assign::greedy_best_first(&w64, t)).unwrap();
    let greedy_differs = g1 < opt - 1e-4 || g2 < opt - 1e-4;
    Ok(CaseOk::new(greedy_differs || near_gate)
        .label_if(greedy_differs, "greedy_suboptimal")
        .label_if(g2 < opt - 1e-4, "best_first_suboptimal")
        .label_if(near_gate, "near_gate"))
}

fn grid_values(t: f32, fine: bool) -> Vec<Option<f32>> {
    if fine {
        vec![None, Some(t - 0.1), Some(t - 2e-6), Some(t - 1e-6), Some(t), Some(t + 1e-6), Some(t + 2e-6), Some(t + 0.1), Some(t + 0.3), Some(t + 0.65)]
    } else {
        vec![None, Some(t - 0.1), Some(t), Some(t + 0.1), Some(t + 0.3)]
    }
}

fn enumerate_matrices(t: f32, dets: usize, tracks: usize, fine: bool, reverse: bool, part: u64, parts: u64) -> impl Iterator<Item = MatrixCase> {
    let vals = grid_values(t, fine);
    let cells = dets * tracks;
    let n = vals.len();
    let total = (n as u64).pow(cells as u32);
    let lo = total * part / parts;
    let hi = total * (part + 1) / parts;
    (lo..hi).map(move |mut code| {
        let mut w = Vec::with_capacity(cells);
        for _ in 0..cells {
            w.push(vals[(code % n as u64) as usize]);
            code /= n as u64;
        }
        let order: Vec<u32> = if reverse { (0..cells as u32).rev().collect() } else { (0..cells as u32).collect() };
        MatrixCase { t, dets, tracks, w, order, extra_dets: 0, extra_tracks: 0, big_ids: reverse }
    })
}

pub fn random_matrix() -> impl Strategy<Value = MatrixCase> {
    (1usize..=8, 1usize..=8, prop_oneof![Just(0.3f32), 0.05f32..0.9, Just(1.0f32)], any::<bool>())
        .prop_flat_map(|(dets, tracks, t, maha)| {
            let cell = if maha || t == 1.0 {
                // Mahalanobis-like weights: 0 (gated out) or (100 - d)/conf
                prop_oneof![2 => Just(None), 1 => Just(Some(0.0f32)), 4 => (88.0f32..100.0, 0.05f32..1.0).prop_map(|(x, c)| Some(x / c))].boxed()
            } else {
                prop_oneof![2 => Just(None), 5 => (0.0f32..1.0).prop_map(Some), 1 => (-3i32..=3).prop_map(move |k| Some(t + k as f32 * 1e-6))].boxed()
            };
            (
                Just((dets, tracks, t)),
                proptest::collection::vec(cell, dets * tracks),
                proptest::collection::vec(any::<u32>(), dets * tracks),
                0usize..3,
                0usize..3,
                any::<bool>(),
            )
        })
        .prop_map(|((dets, tracks, t), w, order, extra_dets, extra_tracks, big_ids)| MatrixCase { t, dets, tracks, w, order, extra_dets, extra_tracks, big_ids })
}

pub fn run_level_a(env: &Env, rep: &Report) {
    // exhaustive grids: all shapes up to 3x3
    let shapes_fine: Vec<(usize, usize)> = vec![(1, 1), (1, 2), (1, 3), (2, 1), (3, 1), (2, 2), (2, 3), (3, 2)];
    let mut jobs0: Vec<(f32, usize, usize, bool, bool)> = vec![];
    for &t in &[0.3f32, 1.0] {
        for &(d, k) in &shapes_fine {
            jobs0.push((t, d, k, true, false));
        }
        jobs0.push((t, 3, 3, false, false));
        if env.tier == Tier::Thorough {
            jobs0.push((t, 3, 3, false, true));
            for &(d, k) in &shapes_fine {
                jobs0.push((t, d, k, true, true));
            }
        }
    }
    // split the big enumerations into slices so that all cores are used
    let mut jobs: Vec<(f32, usize, usize, bool, bool, u64, u64)> = vec![];
    for (t, d, k, fine, rev) in jobs0 {
        let parts = if d * k >= 6 { 16 } else { 1 };
        for p in 0..parts {
            jobs.push((t, d, k, fine, rev, p, parts));
        }
    }
    let next = std::sync::atomic::AtomicUsize::new(0);
    std::thread::scope(|s| {
        for _ in 0..workers() {
            s.spawn(|| loop {
                let k = next.fetch_add(1, std::sync::atomic::Ordering::SeqCst);
                if k >= jobs.len() {
                    break;
                }
                let (t, d, tr, fine, rev, part, parts) = jobs[k];
                run_enumerated(rep, "engine-exhaustive", enumerate_matrices(t, d, tr, fine, rev, part, parts), check_matrix);
            });
        }
    });
    rep.set_exhaustive("engine-exhaustive", true);
    rep.note("engine-exhaustive", "all weight matrices of shapes <=3x3 over the grids {absent, t-0.1, t-2e-6, t-1e-6, t, t+1e-6, t+2e-6, t+0.1, t+0.3, t+0.65} (shapes below 3x3) and {absent, t-0.1, t, t+0.1, t+0.3} (3x3), t in {0.3, 1.0}".into());
    par_generated(rep, "engine-random", random_matrix, env.tier.pick(150_000, 4_000_000), workers(), check_matrix);
}

/// Level B: Sort / BatchSort histories, every call checked against the shadow.
pub fn check_tracker(h: &crate::gen::scenes::History) -> CaseResult {
    let st = crate::props::decide::run_decisions(h)?;
    Ok(CaseOk::new(st.greedy_suboptimal_calls > 0 || st.near_gate_calls > 0)
        .label(h.cfg.kind.name())
        .label_if(st.greedy_suboptimal_calls > 0, "greedy_suboptimal_call")
        .label_if(st.near_gate_calls > 0, "near_gate_call")
        .label_if(st.band_calls > 0, "band_call")
        .label_if(st.positional_attachments > 0, "has_continuations")
        .label_if(matches!(h.cfg.pos, crate::trk::Pos::Maha), "mahalanobis"))
}

pub fn run(env: &Env, rep: &Report) {
    stall_watchdog(400);
    rep.set_rule("level A: SortVoting::winners on weight matrices - exhaustive for <=3 detections x <=3 tracks over a grid straddling the threshold, random up to 8x8 with shuffled arrival order, IoU-like and Mahalanobis-like weights; oracle: subset-DP optimum with 'unmatched = threshold'. Level B: Sort / BatchSort histories (crowds, crossings, duplicates, drop-outs), every call checked against the f64 shadow: continuations are gated pairs of live unexpired tracks of the scene and their total equals the DP optimum. Non-trivial: the optimum beats row-order or best-first greedy, or a weight lies within 0.05 of the gate; distinct = distinct serialized case");
    rep.assume("integerisation at 1e-6 and f32 scaling: totals compared within rows*(2e-6 + 4e-7*max|w|)");
    run_level_a(env, rep);
    rep.assume("level B: weights recomputed in f64 from the observable pre-call state (last posterior box, raw Kalman state) - IoU x max(conf, min_conf) kept when >= threshold, or (100 - d^2)/conf inside the chi-square gate and bounding-circle reach; calls with a decision within 1e-4 of a threshold are counted as band and not asserted");
    let pool = IsoPool::new(&env.prop, "tracker", std::time::Duration::from_secs(120));
    let n = env.tier.pick(6_000, 80_000);
    for kind in [crate::trk::Kind::Sort, crate::trk::Kind::BatchSort] {
        par_generated(rep, "tracker", move || crate::gen::scenes::history(kind, false, 40), n, workers(), crate::props::c01::iso_check(&pool, rep));
    }
}

pub fn replay(sub: &str, case: Value) -> Option<CaseResult> {
    match sub {
        "engine-exhaustive" | "engine-random" => Some(replay_case(case, check_matrix, sub)),
        "tracker" => Some(replay_case(case, check_tracker, sub)),
        _ => None,
    }
}
