//! C10 Distance queries are exact and schedule independent (foreign and owned queries,
//! controlled worker orders through the cfg(similari_verif) schedule points).

use crate::core::*;
use crate::ensure;
use crate::props::c11::track_desc;
use crate::sched::{self, Key, Plan, Step};
use crate::store_kit::*;
use proptest::prelude::*;
use serde::{Deserialize, Serialize};
use serde_json::Value;
use similari::store::TrackStore;
use similari::track::TrackAttributes;
use std::collections::BTreeMap;

#[derive(Clone, Debug, Serialize, Deserialize)]
pub struct QueryCase {
    pub shards: usize,
    pub stored: Vec<TrackDesc>,
    /// foreign candidates (ids may collide with stored ids)
    pub foreign: Vec<TrackDesc>,
    /// owned query: ids of stored tracks (may contain missing ids); used when `owned`
    pub owned_ids: Vec<u64>,
    pub owned: bool,
    pub class: u64,
    pub only_baked: bool,
    pub use_iter: bool,
    /// read the error stream before the result stream (while workers may still be busy)
    #[serde(default)]
    pub errs_first: bool,
    /// interleaving choices for the worker queues
    pub choices: Vec<u16>,
    /// where the caller's own step sits among the commands (owned query), 0..=65535 mapped monotonically
    pub caller_pos: u16,
    pub controlled: bool,
    pub delays: Vec<(u8, u16)>,
    /// microseconds every pair metric evaluation takes (0 = fast); with a slow metric the
    /// per-shard counts are sampled while the workers are busy
    #[serde(default)]
    pub slow_metric_us: u16,
    /// merges (destination index, source index into `stored`, remove the source) carried out with
    /// merge history on before the query: the stored tracks then have histories of several ids
    #[serde(default)]
    pub merges: Vec<(u8, u8, bool)>,
    /// 1: the caller drops the result half unread and reads only the errors; 2: the reverse
    #[serde(default)]
    pub drop_half: u8,
}

type Item = (u64, u64, Option<i64>, Option<i32>);

fn norm(v: Vec<Item>) -> Vec<Item> {
    let mut v = v;
    v.sort();
    v
}

pub fn check_query(c: &QueryCase) -> CaseResult {
    let ctl = Ctl::new();
    let n = HN::new();
    let mut store: QuietDrop<TrackStore<HA, HM, HO, HN>> = QuietDrop::new(TrackStore::new(HM::new(ctl.clone()), HA::new(ctl.clone()), n.clone(), c.shards));
    let mut model: BTreeMap<u64, MTrack> = BTreeMap::new();
    for d in &c.stored {
        if model.contains_key(&d.id) {
            continue;
        }
        let (t, m) = build_both(d, &ctl, &n);
        store.add_track(t).map_err(|e| Fail::new("harness", format!("{}", e)))?;
        model.insert(d.id, m);
    }
    let mut merged = 0usize;
    if !c.stored.is_empty() {
        for (d, s_, remove) in &c.merges {
            let (dest, src) = (c.stored[*d as usize % c.stored.len()].id, c.stored[*s_ as usize % c.stored.len()].id);
            if dest == src || !model.contains_key(&dest) || !model.contains_key(&src) {
                continue;
            }
            let r = store.merge_owned(dest, src, None, *remove, true);
            let sm = model.get(&src).unwrap().clone();
            let (mr, _) = model.get_mut(&dest).unwrap().merge(&sm, &sm.classes(), true);
            if r.is_ok() != mr.is_ok() {
                // the merge itself is C09 / C11 material: not judged here
                return Ok(CaseOk::trivial().label("setup_merge_disagrees"));
            }
            if mr.is_ok() {
                merged += 1;
                if *remove {
                    model.remove(&src);
                }
            }
        }
        if merged > 0 {
            for sh in 0..c.shards {
                for (id, t) in store.get_store(sh).iter() {
                    if model.get(id).map(|m| m.snap()) != Some(snap_track(t)) {
                        return Ok(CaseOk::trivial().label("setup_merge_disagrees"));
                    }
                }
            }
        }
    }
    let before: BTreeMap<u64, Snap> = model.iter().map(|(k, v)| (*k, v.snap())).collect();
    // candidates
    let mut cand_models: Vec<MTrack> = vec![];
    let mut cand_tracks: Vec<HTrack> = vec![];
    let mut ids: Vec<u64> = vec![];
    if c.owned {
        for id in &c.owned_ids {
            if ids.contains(id) {
                continue;
            }
            ids.push(*id);
            if let Some(m) = model.get(id) {
                cand_models.push(m.clone());
            }
        }
    } else {
        for d in &c.foreign {
            let (t, m) = build_both(d, &ctl, &n);
            cand_tracks.push(t);
            cand_models.push(m);
        }
    }
    // reference
    let mut want: Vec<Item> = vec![];
    let mut want_errors = 0usize;
    for cm in &cand_models {
        for s in model.values() {
            if s.id == cm.id {
                continue;
            }
            if c.only_baked && s.status() != Ok("ready") {
                continue;
            }
            match cm.distances(s, c.class) {
                // (the metric's post-processing sees the results of one track pair at a time)
                Ok(v) => want.extend(post_keep(v).into_iter().map(|(f, t, a, d)| (f, t, a, d.map(|x| x as i32)))),
                Err(true) => {}
                Err(false) => want_errors += 1,
            }
        }
    }
    // plan: order of the Distances commands of all (candidate, shard) pairs, FIFO per shard
    let k = cand_models.len();
    let lens = vec![k; c.shards];
    let order = sched::interleave(&lens, &c.choices);
    let mut per_shard_next = vec![0usize; c.shards];
    let mut steps: Vec<Step> = vec![];
    for q in &order {
        let cand = &cand_models[per_shard_next[*q]];
        per_shard_next[*q] += 1;
        let a = sched::cmd_arg(*q, sched::KIND_DISTANCES);
        steps.push(Step { gate: Key { site: "store.cmd.begin", a, b: cand.id }, done: Some(Key { site: "store.cmd.end", a, b: cand.id }) });
    }
    let default_order = order.windows(2).all(|w| w[0] <= w[1]) || c.shards == 1;
    if c.owned {
        let pos = ((c.caller_pos as usize) * (steps.len() + 1)) >> 16;
        steps.insert(pos, Step { gate: Key { site: "store.owned.between", a: k as u64, b: 0 }, done: None });
    }
    let delays: Vec<(&'static str, u32, u32)> = c.delays.iter().map(|(occ, us)| ("store.cmd.begin", *occ as u32, *us as u32)).collect();
    let plan = if c.controlled { Plan { steps, delays, gate_timeout_ms: 300 } } else { Plan { steps: vec![], delays, gate_timeout_ms: 1 } };
    let installed = sched::install(plan);
    let mut concurrent_owned = false;
    ctl.slow_metric_us.store(c.slow_metric_us as u32, std::sync::atomic::Ordering::Relaxed);
    let (ok_resp, err_resp) = if c.owned { store.owned_track_distances(&ids, c.class, c.only_baked) } else { store.foreign_track_distances(cand_tracks, c.class, c.only_baked) };
    if c.slow_metric_us > 0 {
        // a distance query never changes what is stored: the per-shard counts add up to the
        // number of stored tracks also while the workers are scanning their shards
        for _ in 0..3 {
            let total: usize = store.shard_stats().iter().sum();
            if total != model.len() {
                ctl.slow_metric_us.store(0, std::sync::atomic::Ordering::Relaxed);
                let _ = ok_resp.all();
                let _ = err_resp.all();
                return Err(Fail::new("distance-count-during-query", format!("shard_stats sums to {} while a distance query is running, {} tracks are stored", total, model.len())));
            }
            std::thread::sleep(std::time::Duration::from_micros(150));
        }
    }
    // While the (slowed down) workers are scanning for a foreign query, the caller runs an owned
    // query for stored tracks: "leaves the store unchanged" holds at every moment, so the query in
    // flight must still see every stored track (its own results are judged below as usual), and
    // the owned query returns the sequential answer.
    if !c.owned && c.slow_metric_us > 0 && !c.owned_ids.is_empty() && !c.controlled {
        let mut oids: Vec<u64> = vec![];
        for id in &c.owned_ids {
            if !oids.contains(id) {
                oids.push(*id);
            }
        }
        ctl.slow_clone_us.store(150, std::sync::atomic::Ordering::Relaxed);
        let (o_ok, o_err) = store.owned_track_distances(&oids, c.class, c.only_baked);
        ctl.slow_clone_us.store(0, std::sync::atomic::Ordering::Relaxed);
        let o_raw = o_ok.all();
        let _ = o_err.all();
        let mut o_want: Vec<Item> = vec![];
        for id in &oids {
            if let Some(cm) = model.get(id) {
                for s_ in model.values() {
                    if s_.id == cm.id || (c.only_baked && s_.status() != Ok("ready")) {
                        continue;
                    }
                    if let Ok(v) = cm.distances(s_, c.class) {
                        o_want.extend(post_keep(v).into_iter().map(|(f, t, a, d)| (f, t, a, d.map(|x| x as i32))));
                    }
                }
            }
        }
        let o_got: Vec<Item> = o_raw.iter().map(|m| (m.from, m.to, m.attribute_metric, m.feature_distance.map(|x| x as i32))).collect();
        if norm(o_got.clone()) != norm(o_want.clone()) {
            ctl.slow_metric_us.store(0, std::sync::atomic::Ordering::Relaxed);
            let _ = ok_resp.all();
            let _ = err_resp.all();
            return Err(Fail::new("distance-results-owned", format!("an owned query issued while a foreign query is in flight returns {} results, expected {}", o_got.len(), o_want.len())));
        }
        concurrent_owned = true;
    }
    let (raw, errs) = if c.drop_half == 1 {
        // the results are of no interest to this caller: the errors must still all arrive
        drop(ok_resp);
        let errs = if c.use_iter { err_resp.into_iter().collect::<Vec<_>>() } else { err_resp.all() };
        (vec![], errs)
    } else if c.drop_half == 2 {
        drop(err_resp);
        let raw = if c.use_iter { ok_resp.into_iter().collect::<Vec<_>>() } else { ok_resp.all() };
        (raw, vec![])
    } else if c.errs_first {
        let errs = if c.use_iter { err_resp.into_iter().collect::<Vec<_>>() } else { err_resp.all() };
        let raw = if c.use_iter { ok_resp.into_iter().collect::<Vec<_>>() } else { ok_resp.all() };
        (raw, errs)
    } else {
        let raw = if c.use_iter { ok_resp.into_iter().collect::<Vec<_>>() } else { ok_resp.all() };
        let errs = if c.use_iter { err_resp.into_iter().collect::<Vec<_>>() } else { err_resp.all() };
        (raw, errs)
    };
    ctl.slow_metric_us.store(0, std::sync::atomic::Ordering::Relaxed);
    let expired = installed.ctl.expired();
    let log = installed.ctl.log();
    drop(installed);
    let got: Vec<Item> = raw.iter().map(|m| (m.from, m.to, m.attribute_metric, m.feature_distance.map(|x| x as i32))).collect();
    for (f, t, _, _) in &got {
        ensure!(f != t, "distance-self-pair", "result pairs track {} with itself", f);
    }
    let (got, want) = (norm(got), norm(want));
    if c.drop_half != 1 && got != want {
        let missing: Vec<&Item> = want.iter().filter(|x| !got.contains(x)).take(4).collect();
        let extra: Vec<&Item> = got.iter().filter(|x| !want.contains(x)).take(4).collect();
        return Err(Fail::new(
            if c.owned { "distance-results-owned" } else { "distance-results-foreign" },
            format!("{} results, expected {}; missing e.g. {:?}; unexpected e.g. {:?}; executed order {:?}", got.len(), want.len(), missing, extra, log.iter().filter(|e| e.0 != "store.cmd.end").map(|e| (e.0, e.1 & 0xffff, e.2)).collect::<Vec<_>>()),
        ));
    }
    ensure!(c.drop_half == 2 || errs.len() == want_errors, "distance-errors", "{} error items, expected {} (one per compatible stored track lacking the class)", errs.len(), want_errors);
    for e in &errs {
        ensure!(e.is_err(), "distance-errors", "an Ok value was delivered on the error stream");
    }
    // the store is unchanged
    let mut after: BTreeMap<u64, Snap> = BTreeMap::new();
    for s in 0..c.shards {
        for (id, t) in store.get_store(s).iter() {
            after.insert(*id, snap_track(t));
        }
    }
    ensure!(after == before, "distance-store-changed", "store contents changed by a distance query: ids {:?} -> {:?}", before.keys().collect::<Vec<_>>(), after.keys().collect::<Vec<_>>());
    // Second query on the same store after tracks changed their status through the direct
    // (caller-side) operations: what a query reports is a function of what is stored when it is
    // asked, not of what an earlier query saw.
    let mut requeried = false;
    if c.drop_half == 0 && !c.stored.is_empty() {
        let mut changed = 0usize;
        for d in c.stored.iter().take(3) {
            if !model.contains_key(&d.id) {
                continue;
            }
            let upd = if d.val.rem_euclid(2) == 0 { Some(HU::Add(1)) } else { Some(HU::Add(3)) };
            let r = store.add(d.id, c.class, Some(HO(d.val as i32 % 7)), Some(feat(d.val as i32 % 5)), upd.clone());
            let (mr, _) = model.get_mut(&d.id).unwrap().add_observation(c.class, Some(HO(d.val as i32 % 7)), Some(feat(d.val as i32 % 5)), upd);
            if r.is_ok() != mr.is_ok() {
                return Ok(CaseOk::trivial().label("setup_add_disagrees"));
            }
            if mr.is_ok() {
                changed += 1;
            }
        }
        if changed > 0 {
            let mut cand_models2: Vec<MTrack> = vec![];
            let mut cand_tracks2: Vec<HTrack> = vec![];
            if c.owned {
                for id in &ids {
                    if let Some(m) = model.get(id) {
                        cand_models2.push(m.clone());
                    }
                }
            } else {
                for d in &c.foreign {
                    let (t, m) = build_both(d, &ctl, &n);
                    cand_tracks2.push(t);
                    cand_models2.push(m);
                }
            }
            let mut want2: Vec<Item> = vec![];
            let mut want_errors2 = 0usize;
            for cm in &cand_models2 {
                for s in model.values() {
                    if s.id == cm.id || (c.only_baked && s.status() != Ok("ready")) {
                        continue;
                    }
                    match cm.distances(s, c.class) {
                        Ok(v) => want2.extend(post_keep(v).into_iter().map(|(f, t, a, d)| (f, t, a, d.map(|x| x as i32)))),
                        Err(true) => {}
                        Err(false) => want_errors2 += 1,
                    }
                }
            }
            let (ok2, err2) = if c.owned { store.owned_track_distances(&ids, c.class, c.only_baked) } else { store.foreign_track_distances(cand_tracks2, c.class, c.only_baked) };
            let got2: Vec<Item> = ok2.all().iter().map(|m| (m.from, m.to, m.attribute_metric, m.feature_distance.map(|x| x as i32))).collect();
            let errs2 = err2.all();
            let (got2, want2) = (norm(got2), norm(want2));
            if got2 != want2 {
                let missing: Vec<&Item> = want2.iter().filter(|x| !got2.contains(x)).take(4).collect();
                let extra: Vec<&Item> = got2.iter().filter(|x| !want2.contains(x)).take(4).collect();
                return Err(Fail::new("distance-results-second-query", format!("second query after {} stored tracks changed through TrackStore::add: {} results, expected {}; missing e.g. {:?}; unexpected e.g. {:?}", changed, got2.len(), want2.len(), missing, extra)));
            }
            ensure!(errs2.len() == want_errors2, "distance-errors-second-query", "second query: {} error items, expected {}", errs2.len(), want_errors2);
            requeried = true;
        }
    }
    let owned_mutual = c.owned && {
        let mut yes = false;
        for a in &cand_models {
            for b in &cand_models {
                if a.id != b.id && a.attrs.compatible(&b.attrs) && a.obs.contains_key(&c.class) && b.obs.contains_key(&c.class) {
                    yes = true;
                }
            }
        }
        yes
    };
    let achieved = c.controlled && expired == 0;
    let nontrivial = (k >= 2 && c.shards >= 2 && achieved && !default_order) || (owned_mutual && cand_models.len() >= 2);
    Ok(CaseOk::new(nontrivial)
        .label(if c.owned { "owned" } else { "foreign" })
        .label_if(c.controlled, "controlled")
        .label_if(expired > 0, "plan_deviation")
        .label_if(owned_mutual, "owned_mutually_compatible")
        .label_if(want_errors > 0, "missing_class_errors")
        .label_if(c.only_baked, "only_baked")
        .label_if(merged > 0, "stored_tracks_with_merge_history")
        .label_if(c.drop_half > 0, "one_stream_dropped_unread")
        .label_if(concurrent_owned, "owned_query_while_foreign_query_in_flight")
        .label_if(requeried, "second_query_after_direct_changes")
        .label_if(want.is_empty(), "no_results"))
}


// ---------------------------------------------------------------------------------------------
// a metric that relies on the library's default post-processing

/// Pair metric with the trait's default `postprocess_distances`: attribute distance when both
/// observations carry an attribute, feature distance when both carry a feature - a pair of an
/// attribute-only and a feature-only observation yields a result with neither value, which is a
/// result all the same (`Track::distances` returns it).
#[derive(Clone, Default)]
pub struct DM;

impl similari::track::ObservationMetric<HA, HO> for DM {
    fn metric(&self, mq: &similari::track::MetricQuery<'_, HA, HO>) -> similari::track::MetricOutput<i64> {
        let a = match (mq.candidate_observation.attr(), mq.track_observation.attr()) {
            (Some(x), Some(y)) => Some((x.0 as i64 - y.0 as i64).abs()),
            _ => None,
        };
        let f = match (mq.candidate_observation.feature(), mq.track_observation.feature()) {
            (Some(x), Some(y)) => Some((feat_val(x) - feat_val(y)).abs()),
            _ => None,
        };
        Some((a, f))
    }
    fn optimize(&mut self, _class: u64, _history: &[u64], _attrs: &mut HA, _obs: &mut Vec<similari::track::Observation<HO>>, _prev_length: usize, _is_merge: bool) -> anyhow::Result<()> {
        Ok(())
    }
}

#[derive(Clone, Debug, Serialize, Deserialize)]
pub struct DmCase {
    pub shards: usize,
    /// observations (attribute, feature) of the stored tracks 1.. and of the candidates 101..
    pub stored: Vec<Vec<(Option<i8>, Option<i8>)>>,
    pub cands: Vec<Vec<(Option<i8>, Option<i8>)>>,
    pub owned: bool,
    pub use_iter: bool,
}

pub fn dm_case() -> impl Strategy<Value = DmCase> {
    let obs = || proptest::collection::vec(prop_oneof![(any::<i8>().prop_map(Some), Just(None)), (Just(None), any::<i8>().prop_map(Some)), (any::<i8>().prop_map(Some), any::<i8>().prop_map(Some)), (Just(None), Just(None))], 0..4);
    (1usize..5, proptest::collection::vec(obs(), 0..6), proptest::collection::vec(obs(), 1..4), any::<bool>(), any::<bool>()).prop_map(|(shards, stored, cands, owned, use_iter)| DmCase { shards, stored, cands, owned, use_iter })
}

pub fn check_dm(c: &DmCase) -> CaseResult {
    type T = similari::track::Track<HA, DM, HO, HN>;
    let ctl = Ctl::new();
    let n = HN::new();
    let mut attrs = HA::new(ctl.clone());
    attrs.val = 1; // Ready as soon as there is an observation
    let build = |id: u64, obs: &Vec<(Option<i8>, Option<i8>)>| -> T {
        let mut t = similari::track::Track::new(id, DM, attrs.clone(), n.clone());
        for (a, f) in obs {
            t.add_observation(0, a.map(|x| HO(x as i32)), f.map(|x| feat(x as i32)), None).unwrap();
        }
        t
    };
    let mut store: QuietDrop<TrackStore<HA, DM, HO, HN>> = QuietDrop::new(TrackStore::new(DM, attrs.clone(), n.clone(), c.shards));
    let stored: Vec<T> = c.stored.iter().enumerate().map(|(i, o)| build(i as u64 + 1, o)).collect();
    for t in &stored {
        store.add_track(t.clone()).map_err(|e| Fail::new("harness", format!("{}", e)))?;
    }
    // candidates: foreign tracks, or (owned) the first stored tracks
    let cands: Vec<T> = if c.owned { stored.iter().take(c.cands.len()).cloned().collect() } else { c.cands.iter().enumerate().map(|(i, o)| build(i as u64 + 101, o)).collect() };
    // reference: the per-pair function, and the count the pair definition gives (every pair of
    // observations of the class is one result, whatever values it carries)
    let mut want: Vec<Item> = vec![];
    let mut want_count = 0usize;
    let mut valueless = 0usize;
    for cand in &cands {
        for s in &stored {
            if s.get_track_id() == cand.get_track_id() {
                continue;
            }
            if let Ok(v) = cand.distances(s, 0) {
                valueless += v.iter().filter(|m| m.attribute_metric.is_none() && m.feature_distance.is_none()).count();
                want.extend(v.iter().map(|m| (m.from, m.to, m.attribute_metric, m.feature_distance.map(|x| x as i32))));
            }
            let nobs = |t: &T| t.get_observations(0).map(|o| o.len()).unwrap_or(0);
            want_count += nobs(cand) * nobs(s);
        }
    }
    let ids: Vec<u64> = cands.iter().map(|t| t.get_track_id()).collect();
    let (ok, err) = if c.owned { store.owned_track_distances(&ids, 0, false) } else { store.foreign_track_distances(cands.clone(), 0, false) };
    let raw = if c.use_iter { ok.into_iter().collect::<Vec<_>>() } else { ok.all() };
    let _ = err.all();
    let got: Vec<Item> = raw.iter().map(|m| (m.from, m.to, m.attribute_metric, m.feature_distance.map(|x| x as i32))).collect();
    ensure!(want.len() == want_count, "default-metric-pair-function", "Track::distances yields {} results for {} observation pairs", want.len(), want_count);
    let (got, want) = (norm(got), norm(want));
    ensure!(got == want, "distance-results-default-postprocessing", "a store query with a metric that keeps the default post-processing returns {} results, the per-pair definition gives {} ({} of them carry neither an attribute nor a feature distance)", got.len(), want.len(), valueless);
    Ok(CaseOk::new(valueless > 0 && c.shards >= 2).label(if c.owned { "owned" } else { "foreign" }).label_if(valueless > 0, "results_without_values"))
}

/// Track descriptions biased towards producing distances: mostly one compatibility group,
/// half of the tracks Ready, most observations in class 0.
fn rich_desc(id: u64) -> impl Strategy<Value = TrackDesc> {
    prop_oneof![
        4 => (
            prop_oneof![3 => prop_oneof![Just(1i64), Just(5)], 2 => -2i64..7],
            prop_oneof![5 => Just(0u8), 1 => Just(1u8)],
            proptest::collection::vec((prop_oneof![4 => Just(0u64), 1 => Just(1u64), 1 => Just(2u64)], prop_oneof![1 => Just(None), 6 => (0i32..12).prop_map(Some)], prop_oneof![1 => Just(None), 3 => (0i32..9).prop_map(Some)]), 0..5),
        )
            .prop_map(move |(val, group, obs)| TrackDesc { id, val, group, poison: false, obs: obs.into_iter().filter(|(_, a, f)| a.is_some() || f.is_some()).collect(), reid: None }),
        1 => track_desc(id),
    ]
}

pub fn query_case() -> impl Strategy<Value = QueryCase> {
    (
        1usize..=4,
        proptest::collection::vec(prop_oneof![10 => (1u64..10), 1 => prop_oneof![Just(1u64 << 32), Just((1u64 << 32) + 1), Just((1u64 << 40) + 7), Just(u64::MAX)]].prop_flat_map(rich_desc), 0..7),
        proptest::collection::vec(prop_oneof![3 => (100u64..110), 1 => (1u64..10)].prop_flat_map(rich_desc), 0..4),
        proptest::collection::vec(1u64..10, 0..5),
        any::<bool>(),
        prop_oneof![4 => Just(0u64), 1 => Just(1u64), 1 => Just(2u64)],
        proptest::bool::weighted(0.3),
        (any::<bool>(), any::<bool>()),
        proptest::collection::vec(any::<u16>(), 16),
        any::<u16>(),
        proptest::bool::weighted(0.8),
        (prop_oneof![30 => proptest::collection::vec((0u8..8, 0u16..1500), 0..3), 1 => (0u8..6, 60_000u16..65_000).prop_map(|x| vec![x])],
        (prop_oneof![3 => Just(vec![]), 2 => proptest::collection::vec((0u8..7, 0u8..7, proptest::bool::weighted(0.3)), 1..4)], prop_oneof![6 => Just(0u8), 1 => Just(1u8), 1 => Just(2u8)])),
    )
        .prop_map(|(shards, stored, foreign, owned_ids, owned, class, only_baked, (use_iter, errs_first), choices, caller_pos, controlled, (delays, (merges, drop_half)))| {
            // owned ids mostly name stored tracks (every 4th one stays arbitrary = possibly missing)
            let owned_ids: Vec<u64> = owned_ids
                .iter()
                .enumerate()
                .map(|(k, x)| if stored.is_empty() || k % 4 == 3 { *x } else { stored[(*x as usize * 7 + k) % stored.len()].id })
                .collect();
            QueryCase {
            shards,
            stored,
            foreign,
            owned_ids,
            owned,
            class,
            only_baked,
            use_iter,
            errs_first,
            choices,
            caller_pos,
            controlled,
            slow_metric_us: if delays.len() == 2 { 60 } else { 0 },
            delays,
            merges,
            drop_half,
        }})
}

/// Exhaustive interleavings for small scenarios: every order of the (<= 6) Distances commands and
/// every position of the caller's own step.
fn small_scenarios(seed: u64, count: usize) -> Vec<QueryCase> {
    let mut out = vec![];
    let mut k = 0u64;
    while out.len() < count {
        k += 1;
        let base = sample_one(&query_case(), mix(seed, k));
        let ncand = if base.owned {
            let mut ids = vec![];
            for id in &base.owned_ids {
                if !ids.contains(id) && base.stored.iter().any(|s| s.id == *id) {
                    ids.push(*id);
                }
            }
            ids.len()
        } else {
            base.foreign.len()
        };
        let cmds = ncand * base.shards;
        if cmds == 0 || cmds > 6 || base.shards < 2 {
            continue;
        }
        let lens = vec![ncand; base.shards];
        for order in sched::all_interleavings(&lens) {
            // encode the order as choices that reproduce it
            let mut rem = lens.clone();
            let mut choices = vec![];
            for q in &order {
                let enabled: Vec<usize> = (0..rem.len()).filter(|x| rem[*x] > 0).collect();
                let pos = enabled.iter().position(|x| x == q).unwrap();
                // smallest c with (c * len) >> 16 == pos
                let c = ((pos << 16) + enabled.len() - 1) / enabled.len();
                choices.push(c as u16);
                rem[*q] -= 1;
            }
            let positions: Vec<u16> = if base.owned { (0..=cmds).map(|p| (((p << 16) + cmds) / (cmds + 1)).min(65535) as u16).collect() } else { vec![0] };
            for caller_pos in positions {
                let mut c = base.clone();
                c.choices = choices.clone();
                c.caller_pos = caller_pos;
                c.controlled = true;
                c.delays = vec![];
                out.push(c);
            }
        }
    }
    out
}

fn iso_check<'a>(pool: &'a IsoPool, rep: &'a Report) -> impl Fn(&QueryCase) -> CaseResult + 'a {
    move |c: &QueryCase| match pool.eval(c) {
        Err(f) if f.signature.starts_with("hang@") => {
            rep.mark_inconclusive(format!("a case did not finish within the time-out: {}", f.msg));
            Ok(CaseOk::trivial().label("hang_inconclusive"))
        }
        r => r,
    }
}

pub fn run(env: &Env, rep: &Report) {
    MAX_SHRINK_ITERS.store(200, std::sync::atomic::Ordering::Relaxed);
    rep.set_rule("store contents (0..6 tracks with 0..3 observations in 3 classes, mixed groups = compatibility and mixed Pending/Ready/Wasted/error status), foreign candidate batches (ids may equal stored ids) or owned id lists (incl. missing ids), both only_baked settings, all()/iterator, shard counts 1..4, and a plan that totally orders every Distances command (FIFO per shard) and the caller's own step of the owned query; all command-granularity interleavings for scenarios with <= 6 commands, random plans and delays otherwise. Oracle: sequential definition with the harness-owned metric; multiset of (from, to, attribute metric, feature distance), error count, store unchanged. Non-trivial: >=2 candidates on >=2 shards under an achieved non-default order, or an owned query with >=2 mutually compatible candidates; distinct = distinct serialized case");
    rep.assume("cases run in child processes (one global hook callback per process); gate waits are bounded (300 ms), an expired wait is counted as plan deviation and never as a failure");
    let pool = IsoPool::new(&env.prop, "query", std::time::Duration::from_secs(60));
    let w = workers();
    let small = small_scenarios(rep.seed, env.tier.pick(30_000, 400_000));
    let chunk = (small.len() + w - 1) / w;
    std::thread::scope(|s| {
        for part in small.chunks(chunk.max(1)) {
            let pool = &pool;
            s.spawn(move || {
                run_enumerated(rep, "all-interleavings", part.iter().cloned(), iso_check(pool, rep));
            });
        }
    });
    rep.note("all-interleavings", "for each sampled scenario with <= 6 Distances commands on >= 2 shards: every interleaving of the per-shard FIFO queues x every position of the caller's step".into());
    par_generated(rep, "query", query_case, env.tier.pick(100_000, 1_500_000), w, iso_check(&pool, rep));
    par_generated(rep, "default-metric", dm_case, env.tier.pick(30_000, 500_000), w, check_dm);
    rep.note("default-metric", "a second metric type that keeps the trait's default post-processing and yields results without values (attribute-only vs feature-only observations): store queries vs Track::distances per pair".into());
    rep.set_extra("child_timeouts", serde_json::json!(pool.timeouts.load(std::sync::atomic::Ordering::Relaxed)));
}

pub fn replay(sub: &str, case: Value) -> Option<CaseResult> {
    match sub {
        "query" | "all-interleavings" => Some(replay_case(case, check_query, sub)),
        "default-metric" => Some(replay_case(case, check_dm, sub)),
        _ => None,
    }
}
