//! C01 Tracker output contract (monitor over generated histories, all four tracker kinds).

use crate::core::*;
use crate::gen::scenes::{history, History};
use crate::props::trkmon::{run_monitored, Flags};
use crate::trk::Kind;
use serde_json::Value;

pub fn check_history(h: &History) -> CaseResult {
    let st = run_monitored(h, Flags { c01: true, c03: false, c13: false, margins: false, group_batches: true })?;
    Ok(CaseOk::new(st.crowded_calls > 0)
        .label(h.cfg.kind.name())
        .label_if(st.continuations > 0, "has_continuations")
        .label_if(matches!(h.cfg.pos, crate::trk::Pos::Maha), "mahalanobis"))
}

pub const KINDS: [Kind; 4] = [Kind::Sort, Kind::BatchSort, Kind::VisualSort, Kind::BatchVisualSort];

pub fn iso_check<'a, C: serde::Serialize>(pool: &'a IsoPool, rep: &'a Report) -> impl Fn(&C) -> CaseResult + 'a {
    move |c: &C| match pool.eval(c) {
        Err(f) if f.signature.starts_with("hang@") => {
            rep.mark_inconclusive(format!("a case did not finish within the time-out: {}", f.msg));
            Ok(CaseOk::trivial().label("hang_inconclusive"))
        }
        r => r,
    }
}

pub fn run(env: &Env, rep: &Report) {
    rep.set_rule("histories of predict calls (0..8 detections, drop-outs, exact duplicates, false positives, empty calls, rotated boxes incl. |angle| > 2pi, crowds / crossings) over 1..3 scenes interleaved with wasted / idle queries, for Sort, BatchSort, VisualSort, BatchVisualSort, IoU(t) and Mahalanobis, shards 1..4, history 1..10, max_idle 0..5. Oracle: monitor model of ids / epochs / lengths plus the echo of custom id, scene and observed box and the stored track read back through the public store accessor. Non-trivial: a call with >= 2 detections of which >= 2 overlap each other or one live track; distinct = distinct serialized history");
    rep.assume("observed-box echo compared within 2 ulp per field (None and Some(0.0) are the same angle); cases run in child processes");
    let pool = IsoPool::new(&env.prop, "history", std::time::Duration::from_secs(120));
    let n = env.tier.pick(6_000, 60_000);
    for kind in KINDS {
        par_generated(rep, "history", move || history(kind, false, 40), n, workers(), iso_check(&pool, rep));
    }
}

pub fn replay(sub: &str, case: Value) -> Option<CaseResult> {
    match sub {
        "history" => Some(replay_case(case, check_history, sub)),
        _ => None,
    }
}
