//! C11 Track updates are atomic under callback failures; merge history intact.
//! Fault enumeration: every callback position of every generated case is made to fail.

use crate::core::*;
use crate::ensure;
use crate::store_kit::*;
use proptest::prelude::*;
use serde::{Deserialize, Serialize};
use serde_json::Value;
use similari::store::TrackStore;

#[derive(Clone, Debug, Serialize, Deserialize)]
pub enum AtomOp {
    AddObs { class: u64, attr: Option<i32>, feat: Option<i32>, upd: Option<HU> },
    Merge { classes: Vec<u64>, history: bool },
    /// store.add to the stored destination (existing = true) or to a fresh id
    StoreAdd { existing: bool, class: u64, attr: Option<i32>, feat: Option<i32>, upd: Option<HU> },
    MergeExternal { classes: Option<Vec<u64>>, history: bool },
    MergeOwned { classes: Option<Vec<u64>>, remove: bool, history: bool },
}

#[derive(Clone, Debug, Serialize, Deserialize)]
pub struct AtomCase {
    pub dest: TrackDesc,
    pub src: TrackDesc,
    pub shards: usize,
    pub op: AtomOp,
}

pub fn track_desc(id: u64) -> impl Strategy<Value = TrackDesc> {
    (
        -2i64..7,
        0u8..2,
        proptest::bool::weighted(0.1),
        proptest::collection::vec((0u64..3, prop_oneof![1 => Just(None), 6 => (0i32..12).prop_map(Some)], prop_oneof![1 => Just(None), 3 => (0i32..9).prop_map(Some)]), 0..7),
    )
        .prop_map(move |(val, group, poison, obs)| TrackDesc {
            id,
            val,
            group,
            poison,
            // an observation without attribute and feature is a pure attribute update: not part of the description
            obs: obs.into_iter().filter(|(_, a, f)| a.is_some() || f.is_some()).collect(),
            reid: None,
        })
}

fn upd() -> impl Strategy<Value = Option<HU>> {
    prop_oneof![
        3 => Just(None),
        2 => (-3i64..9).prop_map(|v| Some(HU::Set(v))),
        2 => (-3i64..4).prop_map(|v| Some(HU::Add(v))),
        1 => (0u8..2).prop_map(|g| Some(HU::Group(g))),
        1 => Just(Some(HU::Fail)),
    ]
}

fn class_list() -> impl Strategy<Value = Vec<u64>> {
    // subsets of {0,1,2,3} in any order, no duplicates (3 is present in neither track)
    Just(vec![0u64, 1, 2, 3]).prop_shuffle().prop_flat_map(|v| (Just(v), 0usize..=4)).prop_map(|(v, n)| v[..n].to_vec())
}

fn atom_op() -> impl Strategy<Value = AtomOp> {
    let attr = || prop_oneof![1 => Just(None), 6 => (0i32..12).prop_map(Some), 1 => Just(Some(666))];
    let feat = || prop_oneof![1 => Just(None), 3 => (0i32..9).prop_map(Some)];
    prop_oneof![
        3 => (0u64..4, attr(), feat(), upd()).prop_map(|(class, attr, feat, upd)| AtomOp::AddObs { class, attr, feat, upd }),
        4 => (class_list(), any::<bool>()).prop_map(|(classes, history)| AtomOp::Merge { classes, history }),
        2 => (any::<bool>(), 0u64..4, attr(), feat(), upd()).prop_map(|(existing, class, attr, feat, upd)| AtomOp::StoreAdd { existing, class, attr, feat, upd }),
        2 => (proptest::option::of(class_list()), any::<bool>()).prop_map(|(classes, history)| AtomOp::MergeExternal { classes, history }),
        2 => (proptest::option::of(class_list()), any::<bool>(), any::<bool>()).prop_map(|(classes, remove, history)| AtomOp::MergeOwned { classes, remove, history }),
    ]
}

pub fn atom_case() -> impl Strategy<Value = AtomCase> {
    (track_desc(1), track_desc(2), 1usize..4, atom_op(), proptest::bool::weighted(0.2)).prop_map(|(dest, mut src, shards, op, reid)| {
        // an external source may have been given a new id after it was built (the trackers do
        // that with every new track): its history still names the id it was created with
        if reid && matches!(op, AtomOp::Merge { .. } | AtomOp::MergeExternal { .. }) {
            src.reid = Some(40 + src.id);
        }
        AtomCase { dest, src, shards, op }
    })
}

/// attribute key with the "history length seen by optimise" masked (not pinned for merges)
fn mask(mut s: Snap) -> Snap {
    s.attrs.6 = 0;
    s
}

struct Outcome {
    ok: bool,
    dest: Option<Snap>,
    src_stored: Option<Snap>,
    sends: u32,
    callbacks: u32,
    /// for merge_owned: what was returned on success
    returned_src: Option<bool>,
}

/// runs the operation on the implementation with `fail_at` (-1 = none)
fn run_impl(c: &AtomCase, fail_at: i64) -> Result<Outcome, Fail> {
    run_impl_slow(c, fail_at, 0)
}

/// `slow_us`: every optimise callback of the operation itself takes that long
fn run_impl_slow(c: &AtomCase, fail_at: i64, slow_us: u32) -> Result<Outcome, Fail> {
    let ctl = Ctl::new();
    let n = HN::new();
    let (dest, _) = build_both(&c.dest, &ctl, &n);
    let (src, _) = build_both(&c.src, &ctl, &n);
    match &c.op {
        AtomOp::AddObs { class, attr, feat: f, upd } => {
            let mut t = dest;
            let before = n.get();
            ctl.reset(fail_at);
            let r = t.add_observation(*class, attr.map(HO), f.map(feat), upd.clone());
            let callbacks = ctl.count();
            let sends = n.get() - before;
            ctl.reset(-1);
            Ok(Outcome { ok: r.is_ok(), dest: Some(snap_track(&t)), src_stored: None, sends, callbacks, returned_src: None })
        }
        AtomOp::Merge { classes, history } => {
            let mut t = dest;
            let before = n.get();
            ctl.reset(fail_at);
            let r = t.merge(&src, classes, *history);
            let callbacks = ctl.count();
            let sends = n.get() - before;
            ctl.reset(-1);
            Ok(Outcome { ok: r.is_ok(), dest: Some(snap_track(&t)), src_stored: Some(snap_track(&src)), sends, callbacks, returned_src: None })
        }
        _ => {
            let mut attrs = HA::new(ctl.clone());
            attrs.val = 0;
            let mut store: QuietDrop<TrackStore<HA, HM, HO, HN>> = QuietDrop::new(TrackStore::new(HM::new(ctl.clone()), attrs, n.clone(), c.shards));
            store.add_track(dest).map_err(|e| Fail::new("harness", format!("{}", e)))?;
            let read = |store: &TrackStore<HA, HM, HO, HN>, id: u64| store.get_store(id as usize).get(&id).map(snap_track);
            let before;
            let sends;
            let (ok, callbacks, returned_src);
            match &c.op {
                AtomOp::StoreAdd { existing, class, attr, feat: f, upd } => {
                    let id = if *existing { c.dest.id } else { 77 };
                    before = n.get();
                    ctl.reset(fail_at);
                    let r = store.add(id, *class, attr.map(HO), f.map(feat), upd.clone());
                    callbacks = ctl.count();
                    let sends = n.get() - before;
                    ctl.reset(-1);
                    ok = r.is_ok();
                    returned_src = None;
                    let d = read(&store, id);
                    return Ok(Outcome { ok, dest: d, src_stored: None, sends, callbacks, returned_src });
                }
                AtomOp::MergeExternal { classes, history } => {
                    before = n.get();
                    ctl.reset(fail_at);
                    ctl.slow_us.store(slow_us, std::sync::atomic::Ordering::Relaxed);
                    let r = store.merge_external(c.dest.id, &src, classes.as_deref(), *history);
                    ctl.slow_us.store(0, std::sync::atomic::Ordering::Relaxed);
                    callbacks = ctl.count();
                    sends = n.get() - before;
                    ctl.reset(-1);
                    ok = r.is_ok();
                    returned_src = None;
                }
                AtomOp::MergeOwned { classes, remove, history } => {
                    store.add_track(src.clone()).map_err(|e| Fail::new("harness", format!("{}", e)))?;
                    before = n.get();
                    ctl.reset(fail_at);
                    ctl.slow_us.store(slow_us, std::sync::atomic::Ordering::Relaxed);
                    let r = store.merge_owned(c.dest.id, c.src.id, classes.as_deref(), *remove, *history);
                    ctl.slow_us.store(0, std::sync::atomic::Ordering::Relaxed);
                    // a result that arrives late is still the result: give the worker time to finish
                    // whatever it may still be doing before the store is read
                    if slow_us > 0 && r.is_err() {
                        std::thread::sleep(std::time::Duration::from_micros(slow_us as u64 + 200_000));
                    }
                    callbacks = ctl.count();
                    sends = n.get() - before;
                    ctl.reset(-1);
                    ok = r.is_ok();
                    returned_src = r.ok().map(|o| o.is_some());
                }
                _ => unreachable!(),
            }
            let d = read(&store, c.dest.id);
            let s = read(&store, c.src.id);
            Ok(Outcome { ok, dest: d, src_stored: s, sends, callbacks, returned_src })
        }
    }
}

/// the same operation on the reference model (no faults): (ok, dest, src still stored?, sends)
fn run_model(c: &AtomCase) -> (bool, Option<Snap>, u32) {
    let ctl = Ctl::new();
    let n = HN::new();
    let (_, mut dest) = build_both(&c.dest, &ctl, &n);
    let (_, src) = build_both(&c.src, &ctl, &n);
    match &c.op {
        AtomOp::AddObs { class, attr, feat: f, upd } => {
            let (r, sends) = dest.add_observation(*class, attr.map(HO), f.map(feat), upd.clone());
            (r.is_ok(), Some(dest.snap()), sends)
        }
        AtomOp::Merge { classes, history } => {
            let (r, sends) = dest.merge(&src, classes, *history);
            (r.is_ok(), Some(dest.snap()), sends)
        }
        AtomOp::StoreAdd { existing, class, attr, feat: f, upd } => {
            if *existing {
                let (r, sends) = dest.add_observation(*class, attr.map(HO), f.map(feat), upd.clone());
                (r.is_ok(), Some(dest.snap()), sends)
            } else {
                let mut attrs = HA::new(ctl.clone());
                attrs.val = 0;
                let mut t = MTrack::new(77, attrs, HM::new(ctl.clone()));
                let (r, sends) = t.add_observation(*class, attr.map(HO), f.map(feat), upd.clone());
                // creation itself notifies once more (Track::new); not asserted here
                if r.is_ok() { (true, Some(t.snap()), sends) } else { (false, None, 0) }
            }
        }
        AtomOp::MergeExternal { classes, history } | AtomOp::MergeOwned { classes, history, .. } => {
            // an absent or empty list means "all classes defined in the source"
            let cl = classes.clone().filter(|c| !c.is_empty()).unwrap_or_else(|| src.classes());
            let (r, sends) = dest.merge(&src, &cl, *history);
            (r.is_ok(), Some(dest.snap()), sends)
        }
    }
}

pub fn check_atom(c: &AtomCase) -> CaseResult {
    let opname = match &c.op {
        AtomOp::AddObs { .. } => "add_observation",
        AtomOp::Merge { .. } => "track_merge",
        AtomOp::StoreAdd { existing: true, .. } => "store_add_existing",
        AtomOp::StoreAdd { existing: false, .. } => "store_add_missing",
        AtomOp::MergeExternal { .. } => "merge_external",
        AtomOp::MergeOwned { .. } => "merge_owned",
    };
    let is_merge = matches!(c.op, AtomOp::Merge { .. } | AtomOp::MergeExternal { .. } | AtomOp::MergeOwned { .. });
    // pre-state
    let ctl = Ctl::new();
    let n = HN::new();
    let (dt, dm) = build_both(&c.dest, &ctl, &n);
    let (stt, sm) = build_both(&c.src, &ctl, &n);
    let pre_dest = snap_track(&dt);
    let pre_src = snap_track(&stt);
    ensure!(pre_dest == dm.snap() && pre_src == sm.snap(), "construction-differs", "tracks built through the API differ from the model: {:?} vs {:?}", pre_dest, dm.snap());

    // fault-free run against the model
    let real = run_impl(c, -1)?;
    let (m_ok, m_dest, m_sends) = run_model(c);
    let missing_target = matches!(c.op, AtomOp::StoreAdd { existing: false, .. });
    ensure!(real.ok == m_ok, format!("atomic-result:{}", opname), "{}: implementation returned {} but the model {}", opname, if real.ok { "Ok" } else { "Err" }, if m_ok { "Ok" } else { "Err" });
    if m_ok {
        let (a, b) = (real.dest.clone(), m_dest.clone());
        // classes = None: the source's classes are processed in hash-map order, so what the *last*
        // optimise call saw is not determined
        let unordered = match &c.op {
            AtomOp::MergeExternal { classes, .. } | AtomOp::MergeOwned { classes, .. } => classes.as_ref().map(|c| c.is_empty()).unwrap_or(true),
            _ => false,
        };
        let mask2 = |s: Snap| -> Snap {
            let mut s = mask(s);
            if unordered {
                s.attrs.5 = 0;
                s.attrs.7 = 0;
            }
            s
        };
        let (a, b) = if is_merge { (a.map(mask2), b.map(mask2)) } else { (a, b) };
        ensure!(a == b, format!("success-state:{}", opname), "{} succeeded but the destination is {:?}, expected {:?}", opname, a, b);
        if !missing_target {
            ensure!(real.sends == m_sends, format!("success-notify:{}", opname), "{} succeeded with {} change notifications (expected {})", opname, real.sends, m_sends);
        }
        if let AtomOp::MergeOwned { remove, .. } = &c.op {
            ensure!(real.returned_src == Some(*remove), format!("owned-return:{}", opname), "merge_owned(remove={}) returned {:?}", remove, real.returned_src);
            ensure!(real.src_stored.is_some() == !*remove, format!("owned-source:{}", opname), "merge_owned(remove={}) left the source {}", remove, if real.src_stored.is_some() { "stored" } else { "removed" });
        }
    } else {
        // an operation that fails without injected faults (HU::Fail, poisoned source, 666) must
        // be atomic as well
        let expect = if missing_target { None } else { Some(pre_dest.clone()) };
        ensure!(real.dest == expect, format!("failure-state:{}", opname), "{} failed but the destination changed: {:?} -> {:?}", opname, expect, real.dest);
        if !missing_target {
            ensure!(real.sends == 0, format!("failure-notify:{}", opname), "{} failed but sent {} change notifications", opname, real.sends);
        }
    }
    if matches!(c.op, AtomOp::Merge { .. } | AtomOp::MergeOwned { remove: false, .. }) || (matches!(c.op, AtomOp::MergeOwned { .. }) && !m_ok) {
        ensure!(real.src_stored.as_ref() == Some(&pre_src), format!("source-changed:{}", opname), "{}: the source track changed or disappeared: {:?} -> {:?}", opname, pre_src, real.src_stored);
    }

    // every fault position
    let k_total = real.callbacks;
    let mut late_fault = false;
    for k in 0..k_total as i64 {
        let r = run_impl(c, k)?;
        if r.callbacks as i64 <= k {
            continue; // position not reached under this plan
        }
        if k > 0 {
            late_fault = true;
        }
        let expect = if missing_target { None } else { Some(pre_dest.clone()) };
        ensure!(r.dest == expect, format!("fault-state:{}", opname), "{} with callback {} failing: destination is {:?}, was {:?}", opname, k, r.dest, expect);
        // creating a (temporary) track for a missing id notifies once by itself, exactly as
        // building it externally would: only existing tracks are covered by the statement
        if !missing_target {
            ensure!(r.sends == 0, format!("fault-notify:{}", opname), "{} with callback {} failing sent {} change notifications", opname, k, r.sends);
        }
        if matches!(c.op, AtomOp::AddObs { .. } | AtomOp::Merge { .. } | AtomOp::StoreAdd { .. }) {
            ensure!(!r.ok, format!("fault-result:{}", opname), "{} with callback {} failing returned Ok", opname, k);
        }
        if matches!(c.op, AtomOp::Merge { .. } | AtomOp::MergeOwned { .. }) {
            ensure!(r.src_stored.as_ref() == Some(&pre_src), format!("fault-source:{}", opname), "{} with callback {} failing: the source is {:?}, was {:?}", opname, k, r.src_stored, pre_src);
        }
    }
    let (multi_class, hist_off_absent) = match &c.op {
        AtomOp::Merge { classes, history } => (
            classes.iter().filter(|cl| dm.obs.contains_key(cl) || sm.obs.contains_key(cl)).count() >= 2,
            !*history && classes.iter().any(|cl| !dm.obs.contains_key(cl) && !sm.obs.contains_key(cl)),
        ),
        AtomOp::MergeExternal { classes, history } | AtomOp::MergeOwned { classes, history, .. } => {
            let cl = classes.clone().filter(|c| !c.is_empty()).unwrap_or_else(|| sm.classes());
            (cl.iter().filter(|c| dm.obs.contains_key(c) || sm.obs.contains_key(c)).count() >= 2, !*history && cl.iter().any(|c| !dm.obs.contains_key(c) && !sm.obs.contains_key(c)))
        }
        _ => (false, false),
    };
    Ok(CaseOk::new(late_fault || multi_class || hist_off_absent)
        .label(opname)
        .label_if(late_fault, "fault_after_first_callback")
        .label_if(multi_class, "two_classes_present")
        .label_if(hist_off_absent, "history_off_absent_class")
        .label_if(!m_ok, "fails_without_injection"))
}

/// A slow callback is not a failed one: the same store merge with an optimise step that takes
/// seconds must end exactly like the fast run.
#[derive(Clone, Debug, Serialize, Deserialize)]
pub struct SlowCase {
    pub case: AtomCase,
    pub slow_ms: u32,
}

pub fn check_slow(c: &SlowCase) -> CaseResult {
    let fast = run_impl(&c.case, -1)?;
    if !fast.ok || fast.callbacks == 0 {
        return Ok(CaseOk::trivial().label("no_successful_slow_step"));
    }
    let slow = run_impl_slow(&c.case, -1, c.slow_ms * 1000)?;
    ensure!(slow.ok, "slow-merge-reported-failed", "the merge succeeds when its optimise step is fast but is reported as failed when that step takes {} ms (no callback failed)", c.slow_ms);
    ensure!(slow.dest == fast.dest && slow.src_stored == fast.src_stored && slow.returned_src == fast.returned_src, "slow-merge-state", "with an optimise step of {} ms the store ends up differently: dest {:?} vs {:?}, source stored {:?} vs {:?}", c.slow_ms, slow.dest, fast.dest, slow.src_stored.is_some(), fast.src_stored.is_some());
    ensure!(slow.sends == fast.sends, "slow-merge-notifications", "{} notifications with a slow optimise step, {} with a fast one", slow.sends, fast.sends);
    Ok(CaseOk::new(true).label(match c.case.op { AtomOp::MergeOwned { .. } => "merge_owned", _ => "merge_external" }))
}

fn slow_case(slow_ms: u32) -> impl Strategy<Value = SlowCase> {
    // one requested class that the source has: exactly one optimise call, hence one sleep
    (track_desc(1), track_desc(2), 1usize..=3, any::<bool>(), any::<bool>(), any::<bool>()).prop_map(move |(mut dest, mut src, shards, owned, remove, history)| {
        dest.poison = false;
        src.poison = false;
        src.group = dest.group;
        src.obs.retain(|o| o.1 != Some(666));
        dest.obs.retain(|o| o.1 != Some(666));
        if !src.obs.iter().any(|o| o.0 == 0) {
            src.obs.push((0, Some(3), Some(1)));
        }
        let classes = Some(vec![0u64]);
        let op = if owned { AtomOp::MergeOwned { classes, remove, history } } else { AtomOp::MergeExternal { classes, history } };
        SlowCase { case: AtomCase { dest, src, shards, op }, slow_ms }
    })
}

/// A chain of merges into one destination from a small pool of sources - the same source several
/// times in a row, a source that is itself the product of earlier merges (its history starts with
/// the destination's last id), history switched on and off - optionally continued until the
/// history is far longer than any plausible internal bound.
#[derive(Clone, Debug, Serialize, Deserialize)]
pub struct ChainCase {
    pub dest: TrackDesc,
    pub pool: Vec<TrackDesc>,
    /// (source index, merge the destination's clone instead of the source, history flag, class list)
    pub steps: Vec<(usize, bool, bool, Vec<u64>)>,
    /// number of additional merges of the pool (round robin, history on) appended to the steps
    pub long_tail: usize,
}

pub fn check_chain(c: &ChainCase) -> CaseResult {
    let ctl = Ctl::new();
    let n = HN::new();
    let (mut dest, mut mdest) = build_both(&c.dest, &ctl, &n);
    let mut pool: Vec<(HTrack, MTrack)> = c.pool.iter().map(|d| build_both(d, &ctl, &n)).collect();
    if pool.is_empty() {
        return Ok(CaseOk::trivial());
    }
    let base_pool = pool.clone();
    let mut repeated = false;
    let mut last_src: Option<usize> = None;
    let mut longest = 0usize;
    let nsteps = c.steps.len();
    let tail = (0..c.long_tail).map(|k| (k, false, true, vec![0u64, 1, 2]));
    for (step, (si, own_clone, history, classes)) in c.steps.iter().cloned().chain(tail).enumerate() {
        let si = si % pool.len();
        let in_tail = step >= nsteps;
        // (the long tail merges the sources as first built: one id of history each)
        let (src, msrc) = if in_tail { base_pool[si].clone() } else if own_clone { (dest.clone(), mdest.clone()) } else { pool[si].clone() };
        if last_src == Some(si) && history {
            repeated = true;
        }
        last_src = Some(si);
        let r = dest.merge(&src, &classes, history);
        let (mr, _) = mdest.merge(&msrc, &classes, history);
        ensure!(r.is_ok() == mr.is_ok(), "chain-merge-result", "step {}: merge of track {} returned {} but the model {}", step, msrc.id, if r.is_ok() { "Ok" } else { "Err" }, if mr.is_ok() { "Ok" } else { "Err" });
        let got = dest.get_merge_history();
        let same = got.len() == mdest.history.len() && (in_tail && step % 64 != 0 && got.last() == mdest.history.last() || *got == mdest.history);
        ensure!(same, "chain-merge-history", "step {} (source {} with a history of {} ids starting {:?}, history flag {}, classes {:?}): the merge history has {} entries ending {:?}, expected {} entries ending {:?} (previous history followed once by the source's)", step, msrc.id, msrc.history.len(), &msrc.history[..msrc.history.len().min(4)], history, classes, got.len(), &got[got.len().saturating_sub(4)..], mdest.history.len(), &mdest.history[mdest.history.len().saturating_sub(4)..]);
        longest = longest.max(got.len());
        // now and then (a few times only: every such step can double the history) the destination
        // itself becomes a source of the pool - a history that starts with the ids the destination
        // already ends with
        if !in_tail && step % 5 == 4 && step < 25 {
            pool[si] = (dest.clone(), mdest.clone());
        }
    }
    ensure!(*dest.get_merge_history() == mdest.history, "chain-merge-history", "after the chain the merge history differs from previous-history-followed-once-by-each-source ({} vs {} entries)", dest.get_merge_history().len(), mdest.history.len());
    ensure!(ms_eq(&snap_track(&dest), &mdest.snap()), "chain-final-state", "after the chain the destination differs from the model: {:?} vs {:?}", snap_track(&dest), mdest.snap());
    Ok(CaseOk::new(repeated || longest > 1024).label_if(repeated, "same_source_twice_in_a_row").label_if(longest > 1024, "history_longer_than_1024").label_if(longest > 4096, "history_longer_than_4096"))
}

fn ms_eq(a: &Snap, b: &Snap) -> bool {
    // what the last optimise call saw depends on hash order for multi-class merges (masked, as in C09)
    let m = |s: &Snap| {
        let mut s = s.clone();
        s.attrs.5 = 0;
        s.attrs.6 = 0;
        s.attrs.7 = 0;
        s
    };
    m(a) == m(b)
}

pub fn chain_case() -> impl Strategy<Value = ChainCase> {
    (
        track_desc(1),
        proptest::collection::vec((2u64..6).prop_flat_map(track_desc), 1..4),
        proptest::collection::vec((0usize..4, proptest::bool::weighted(0.1), proptest::bool::weighted(0.8), prop_oneof![3 => Just(vec![0u64, 1, 2]), 1 => class_list()]), 1..40),
        prop_oneof![12 => Just(0usize), 1 => 900usize..1400, 1 => 4000usize..4400],
    )
        .prop_map(|(mut dest, mut pool, steps, long_tail)| {
            // failures of the callbacks are the business of `faults`: here every merge is meant to succeed
            dest.poison = false;
            dest.obs.retain(|o| o.1 != Some(666));
            for p in pool.iter_mut() {
                p.poison = false;
                p.group = dest.group;
                p.obs.retain(|o| o.1 != Some(666));
                if long_tail > 0 {
                    // long chains: keep the observation sets small (the optimise callback truncates anyway)
                    p.obs.truncate(2);
                }
            }
            ChainCase { dest, pool, steps, long_tail }
        })
}

pub fn run(env: &Env, rep: &Report) {
    stall_watchdog(300);
    rep.set_rule("tracks with 0..3 feature classes and 0..3 observations each; operations add_observation / Track::merge / store.add (existing and missing id) / merge_external / merge_owned with class lists present in both/one/neither track and both history settings; after a fault-free run numbers the callback invocations, every position k is replayed with 'callback k fails' (exhaustive per case). Oracle: pre-state equality after failure (attributes, observations per class, metric state, merge history), zero notifications on failure / exactly one on success, success state equal to the sequential model. Non-trivial: a fault at a position > 0, or >=2 requested classes present, or history off with an absent class; distinct = distinct serialized case");
    rep.assume("harness-owned attribute/update/metric types (store_kit.rs) leave half-applied changes behind when they fail, so a missing restore is visible; metric state is observed through a follow-up optimise call on a clone; the history length seen by optimise during a merge is not compared (not pinned by the statement)");
    par_generated(rep, "faults", atom_case, env.tier.pick(20_000, 600_000), workers(), check_atom);
    par_generated(rep, "history-chain", chain_case, env.tier.pick(3_000, 60_000), workers(), check_chain);
    // a few merges whose optimise step takes seconds (one per worker, in parallel)
    par_generated(rep, "slow-callbacks", || slow_case(2_600), workers() as u32, workers(), check_slow);
    if env.tier == Tier::Thorough {
        par_generated(rep, "slow-callbacks", || slow_case(11_000), workers() as u32, workers(), check_slow);
        par_generated(rep, "slow-callbacks", || slow_case(700), 4 * workers() as u32, workers(), check_slow);
    }
}

pub fn replay(sub: &str, case: Value) -> Option<CaseResult> {
    match sub {
        "faults" => Some(replay_case(case, check_atom, sub)),
        "slow-callbacks" => Some(replay_case(case, check_slow, sub)),
        "history-chain" => Some(replay_case(case, check_chain, sub)),
        _ => None,
    }
}
