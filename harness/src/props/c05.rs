//! C05 Tracking results are independent of shard count and worker schedule.

use crate::core::*;
use crate::ensure;
use crate::gen::scenes::{history_opts, History};
use crate::props::c01::{iso_check, KINDS};
use crate::props::c04::same_up_to_ids;
use crate::props::trkmon::{run_monitored, run_monitored_with, Flags, MARGIN};
use crate::sched::{self, Key, Plan, Step, ANY};
use crate::trk::Rec;
use proptest::prelude::*;
use serde::{Deserialize, Serialize};
use serde_json::Value;

#[derive(Clone, Debug, Serialize, Deserialize)]
pub struct ShardCase {
    pub h: History,
    pub shards: usize,
    pub voting_shards: usize,
    pub choices: Vec<u16>,
    pub delays: Vec<(u8, u16)>,
    pub controlled: bool,
    /// a worker stalled for tens of milliseconds in one call: (call index, command occurrence, ms);
    /// a value of 200 or more stands for six times as many milliseconds (a worker that is
    /// descheduled for more than a second)
    #[serde(default)]
    pub stall: Option<(u8, u8, u8)>,
}

pub fn check_shards(c: &ShardCase) -> CaseResult {
    // reference: one shard, free schedule
    let mut reference = c.h.clone();
    reference.cfg.shards = 1;
    reference.cfg.voting_shards = 1;
    let base = run_monitored(&reference, Flags { c01: false, c03: false, c13: false, margins: true, group_batches: false })?;
    let mut varied = c.h.clone();
    varied.cfg.shards = c.shards;
    varied.cfg.voting_shards = c.voting_shards;
    let shards = c.shards;
    let mut offset = 0usize;
    let mut non_default_plans = 0usize;
    let mut call_no = 0usize;
    let mut hook = |_k: usize, ndets: usize| -> Option<sched::Installed> {
        call_no += 1;
        if let Some((call, occ, ms)) = c.stall {
            if call as usize + 1 == call_no && ndets > 0 {
                // no gates in this call: one Distances command simply takes very long
                return Some(sched::install(Plan { steps: vec![], delays: vec![("store.cmd.begin", occ as u32 % (ndets * shards) as u32, ms as u32 * if ms >= 200 { 6000 } else { 1000 })], gate_timeout_ms: 1 }));
            }
        }
        if !c.controlled || ndets == 0 {
            return None;
        }
        let lens = vec![ndets; shards];
        let total = ndets * shards;
        let ch: Vec<u16> = (0..total).map(|i| c.choices[(offset + i) % c.choices.len().max(1)]).collect();
        offset += total;
        let order = sched::interleave(&lens, &ch);
        if !order.windows(2).all(|w| w[0] <= w[1]) {
            non_default_plans += 1;
        }
        let steps: Vec<Step> = order
            .iter()
            .map(|q| {
                let a = sched::cmd_arg(*q, sched::KIND_DISTANCES);
                Step { gate: Key { site: "store.cmd.begin", a, b: ANY }, done: Some(Key { site: "store.cmd.end", a, b: ANY }) }
            })
            .collect();
        let delays = c.delays.iter().map(|(occ, us)| ("store.cmd.end", *occ as u32, *us as u32)).collect();
        Some(sched::install(Plan { steps, delays, gate_timeout_ms: 200 }))
    };
    let var = run_monitored_with(&varied, Flags { c01: false, c03: false, c13: false, margins: false, group_batches: false }, &mut hook)?;
    ensure!(base.records.len() == var.records.len(), "shards-call-count", "number of calls differs between 1 shard and {} shards", shards);
    let cut = (0..base.records.len()).find(|i| base.call_margins.get(*i).map(|x| x.1).unwrap_or(0.0) < MARGIN).unwrap_or(base.records.len());
    let cut_op = base.records.get(cut).map(|x| x.0).unwrap_or(usize::MAX);
    let ra: Vec<Vec<Rec>> = base.records[..cut].iter().map(|x| x.1.clone()).collect();
    let rb: Vec<Vec<Rec>> = var.records[..cut].iter().map(|x| x.1.clone()).collect();
    if c.h.cfg.kind.is_batch() {
        same_up_to_ids(&ra, &rb, &format!("1 shard vs {} shards", shards)).map_err(|f| Fail::new(format!("shards-{}", f.signature), f.msg))?;
    } else {
        // simple trackers issue ids in candidate order: records are identical including ids
        for (i, (x, y)) in ra.iter().zip(rb.iter()).enumerate() {
            ensure!(x == y, "shards-records", "call {}: records differ between 1 shard and {} shards (voting shards {}): {:?} vs {:?}", i, shards, c.voting_shards, x, y);
        }
        // wasted / idle sets (before the first ambiguous call)
        let w = |v: &Vec<(usize, std::collections::BTreeSet<u64>)>| v.iter().filter(|x| x.0 < cut_op).cloned().collect::<Vec<_>>();
        ensure!(w(&base.wasted_sets) == w(&var.wasted_sets), "shards-wasted", "wasted() sets differ between 1 shard and {} shards", shards);
        ensure!(w(&base.idle_sets) == w(&var.idle_sets), "shards-idle", "idle sets differ between 1 shard and {} shards", shards);
    }
    let multi = ra.iter().any(|r| r.len() >= 2) && ra.iter().flatten().filter(|r| r.length > 1).count() >= 2;
    let achieved = c.controlled && var.plans > 0 && var.plan_expired == 0 && non_default_plans > 0;
    Ok(CaseOk::new(shards >= 2 && multi && achieved)
        .label(c.h.cfg.kind.name())
        .label_if(c.controlled, "controlled")
        .label_if(c.stall.is_some(), "stalled_worker")
        .label_if(var.plan_expired > 0, "plan_deviation")
        .label_if(cut < base.records.len(), "cut_at_fragile_call")
        .label_if(achieved, "non_default_order_achieved"))
}

pub fn shard_case(kind: crate::trk::Kind) -> impl Strategy<Value = ShardCase> {
    (history_opts(kind, true, 30, false), 1usize..=8, 1usize..=4, proptest::collection::vec(any::<u16>(), 64), proptest::collection::vec((0u8..16, 0u16..800), 0..3), proptest::bool::weighted(0.85), prop_oneof![144 => Just(None), 12 => (1u8..12, 0u8..8, 70u8..130).prop_map(Some), (if matches!(kind, crate::trk::Kind::Sort) { 3 } else { 1 }) => (1u8..6, 0u8..8, Just(220u8)).prop_map(Some)])
        .prop_map(|(h, shards, voting_shards, choices, delays, controlled, stall)| ShardCase { h, shards, voting_shards, choices, delays, controlled, stall })
}


// ---------------------------------------------------------------------------------------------
// arrival order at the voting engine

/// The workers' partial results reach the voting engine in whatever order they finish. For a
/// weight table whose best assignment is unique by a margin the winners are the same for every
/// arrival order (and are that assignment). The margins concentrate in the decades above the
/// engine's weight resolution (1e-6): 2e-4 .. 5e-2.
#[derive(Clone, Debug, Serialize, Deserialize)]
pub struct VoteCase {
    pub t: f32,
    pub dets: usize,
    pub tracks: usize,
    pub w: Vec<Option<f32>>,
    pub order_a: Vec<u32>,
    pub order_b: Vec<u32>,
    pub big_ids: bool,
}

pub fn vote_case() -> impl Strategy<Value = VoteCase> {
    (2usize..=4, 2usize..=4, 0.05f32..0.5, any::<bool>(), (2e-4f32.ln()..5e-2f32.ln()).prop_map(|x: f32| x.exp())).prop_flat_map(|(dets, tracks, t, big_ids, delta)| {
        (
            proptest::collection::vec(prop_oneof![1 => Just(None), 6 => (0.0f32..1.0).prop_map(Some)], dets * tracks),
            proptest::collection::vec(any::<u32>(), dets * tracks),
            proptest::collection::vec(any::<u32>(), dets * tracks),
        )
            .prop_map(move |(mut w, order_a, order_b)| {
                // a contest between the first two detections for the first two tracks that is
                // decided by `delta`: w00 + w11 = w01 + w10 + delta
                let cell = |i: usize, j: usize| i * tracks + j;
                let (w00, w11, w01) = (0.55 + w[cell(0, 0)].unwrap_or(0.2) * 0.4, 0.55 + w[cell(1, 1)].unwrap_or(0.3) * 0.4, 0.5 + w[cell(0, 1)].unwrap_or(0.1) * 0.3);
                w[cell(0, 0)] = Some(w00);
                w[cell(1, 1)] = Some(w11);
                w[cell(0, 1)] = Some(w01);
                w[cell(1, 0)] = Some(w00 + w11 - w01 - delta);
                VoteCase { t, dets, tracks, w, order_a, order_b, big_ids }
            })
    })
}

pub fn check_vote(c: &VoteCase) -> CaseResult {
    use crate::oracle::assign;
    use similari::track::ObservationMetricOk;
    use similari::trackers::sort::voting::SortVoting;
    use similari::utils::bbox::Universal2DBox;
    use similari::voting::Voting;
    let det_id = |i: usize| if c.big_ids { mix(0xD37, i as u64) | 1 } else { 10 + i as u64 };
    let trk_id = |j: usize| if c.big_ids { mix(0x7AC, j as u64) | 1 } else { 100 + j as u64 };
    let run = |order: &Vec<u32>| -> std::collections::BTreeMap<u64, Vec<u64>> {
        let mut stream = vec![];
        for i in 0..c.dets {
            for j in 0..c.tracks {
                if let Some(w) = c.w[i * c.tracks + j] {
                    stream.push((order.get(i * c.tracks + j).copied().unwrap_or(0), i, j, w));
                }
            }
        }
        stream.sort_by_key(|x| x.0);
        let items: Vec<ObservationMetricOk<Universal2DBox>> = stream.iter().map(|&(_, i, j, w)| ObservationMetricOk::new(det_id(i), trk_id(j), Some(w), None)).collect();
        let ntracks = (0..c.tracks).filter(|&j| (0..c.dets).any(|i| c.w[i * c.tracks + j].is_some())).count();
        SortVoting::new(c.t, c.dets, ntracks).winners(items).into_iter().collect()
    };
    let w64: Vec<Vec<Option<f64>>> = (0..c.dets).map(|i| (0..c.tracks).map(|j| c.w[i * c.tracks + j].map(|x| x as f64)).collect()).collect();
    let (opt, opt_assign) = assign::solve(&w64, c.t as f64);
    let margin = opt - assign::runner_up(&w64, c.t as f64, &opt_assign);
    // pairs below the threshold never count: a runner-up that only differs by such a pair is the
    // same outcome; keep to tables where the margin is real and clear of the engine's resolution
    if margin < 1.5e-4 {
        return Ok(CaseOk::trivial().label("margin_below_1.5e-4"));
    }
    let (a, b) = (run(&c.order_a), run(&c.order_b));
    ensure!(a == b, "voting-arrival-order", "the winners depend on the order in which the distances arrive although the best assignment is unique by {:.2e}: {:?} vs {:?}", margin, a, b);
    for (i, want) in opt_assign.iter().enumerate() {
        let expect = match want {
            Some(j) if w64[i][*j].unwrap() >= c.t as f64 => trk_id(*j),
            _ => det_id(i),
        };
        if (0..c.tracks).any(|j| c.w[i * c.tracks + j].is_some()) {
            ensure!(a.get(&det_id(i)) == Some(&vec![expect]), "voting-not-the-unique-optimum", "detection {} gets {:?}, the assignment that is best by {:.2e} gives it {}", i, a.get(&det_id(i)), margin, expect);
        }
    }
    Ok(CaseOk::new(c.order_a != c.order_b).label_if(margin < 1e-3, "margin_below_1e-3").label_if(margin >= 1e-3 && margin < 1e-2, "margin_1e-3_to_1e-2"))
}

pub fn run(env: &Env, rep: &Report) {
    MAX_SHRINK_ITERS.store(200, std::sync::atomic::Ordering::Relaxed);
    rep.set_rule("tie-free multi-object histories (no duplicate detections, distinct appearance per detection; predict plus skip / wasted / idle calls) x shard count 1..8 (voting shards 1..4) x a plan for every predict call that totally orders the Distances commands of all shard workers (FIFO per shard, interleaving chosen by the case) through gates on the command begin/end schedule points, plus delays. Oracle: records of the controlled run = records of the reference run (1 shard, free schedule), including track ids for Sort / VisualSort, up to id renaming for the batch trackers; wasted and idle sets equal; comparison cut at the first call whose decision margin (f64 shadow) is below 1e-4. Non-trivial: >= 2 shards, calls with >= 2 detections and >= 2 continuations, and at least one achieved plan whose order differs from the shard-by-shard default; distinct = distinct serialized case. Sub-check voting-order: weight tables with a contest decided by 2e-4 .. 5e-2 delivered to the Hungarian voting engine in two arrival orders (non-trivial: the two orders differ and the exact margin is at least 1.5e-4)");
    rep.assume("schedules are forced at command granularity through the cfg(similari_verif) schedule points; gate waits are bounded (200 ms) and an expired wait only costs coverage (counted as plan_deviation)");
    par_generated(rep, "voting-order", vote_case, env.tier.pick(200_000, 4_000_000), workers(), check_vote);
    rep.note("voting-order", "weight tables (2..4 x 2..4) with a contest decided by 2e-4 .. 5e-2, delivered to the Hungarian voting engine in two arrival orders: same winners, equal to the unique optimum (margin >= 1.5e-4, computed exactly)".into());
    let pool = IsoPool::new(&env.prop, "shards", std::time::Duration::from_secs(180));
    let n = env.tier.pick(4_000, 40_000);
    for kind in KINDS {
        par_generated(rep, "shards", move || shard_case(kind), n, workers(), iso_check(&pool, rep));
    }
}

pub fn replay(sub: &str, case: Value) -> Option<CaseResult> {
    match sub {
        "shards" => Some(replay_case(case, check_shards, sub)),
        "voting-order" => Some(replay_case(case, check_vote, sub)),
        _ => None,
    }
}
