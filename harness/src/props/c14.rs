//! C14 Non-maximum suppression: validity predicate over the output, with the geometry oracle.

use crate::core::*;
use crate::ensure;
use crate::gen::boxes::*;
use crate::oracle::geom;
use proptest::prelude::*;
use serde::{Deserialize, Serialize};
use serde_json::Value;
use similari::utils::bbox::Universal2DBox;
use similari::utils::nms::nms;

#[derive(Clone, Debug, Serialize, Deserialize)]
pub struct NmsCase {
    pub boxes: Vec<(UB, Option<f32>)>,
    pub nms_thr: f32,
    pub score_thr: Option<f32>,
    /// integer axis-aligned boxes and a dyadic threshold: every coverage is exact in f32 and f64,
    /// so the threshold is decided without a tolerance band
    #[serde(default)]
    pub exact: bool,
    /// box i is a re-used object: it was built with these earlier values, had its vertices
    /// generated, and was then moved to its listed values by field assignment (bit 0 of the flag:
    /// handed over as a clone of that object)
    #[serde(default)]
    pub reused: Vec<Option<(UB, u8)>>,
}

fn materialize(c: &NmsCase, i: usize) -> Universal2DBox {
    let b = &c.boxes[i].0;
    match c.reused.get(i).copied().flatten() {
        None => b.lib(),
        Some((old, flag)) => {
            let mut l = old.lib();
            l.gen_vertices();
            l.xc = b.xc;
            l.yc = b.yc;
            l.angle = b.angle;
            l.aspect = b.aspect;
            l.height = b.height;
            if flag & 1 == 1 { l.clone() } else { l }
        }
    }
}

#[derive(Clone, Debug)]
struct Spec {
    cluster: usize,
    ox: f32,
    oy: f32,
    fw: f32,
    fh: f32,
    rot: Option<f32>,
    invalid: u8,
    dup: bool,
    score: f32,
    score_none: bool,
}

fn spec() -> impl Strategy<Value = Spec> {
    (
        0usize..4,
        -0.7f32..0.7,
        -0.7f32..0.7,
        0.4f32..1.6,
        0.4f32..1.6,
        prop_oneof![4 => Just(None), 1 => (-0.3f32..0.3).prop_map(Some), 1 => (-3.2f32..3.2).prop_map(Some)],
        prop_oneof![90 => Just(0u8), 1 => Just(1u8), 1 => Just(2u8), 1 => Just(3u8)],
        proptest::bool::weighted(0.12),
        // detector confidences, or raw scores that need not be positive (zero, logits)
        prop_oneof![6 => (1u8..10).prop_map(|k| k as f32 / 10.0), 6 => 0.05f32..0.95, 1 => Just(0.0f32), 1 => -3.0f32..0.0],
        any::<bool>(),
    )
        .prop_map(|(cluster, ox, oy, fw, fh, rot, invalid, dup, score, score_none)| Spec { cluster, ox, oy, fw, fh, rot, invalid, dup, score, score_none })
}

pub fn nms_case() -> impl Strategy<Value = NmsCase> {
    (
        proptest::collection::vec(spec(), 0..=40),
        proptest::collection::vec((-500.0f32..500.0, -500.0f32..500.0, 5.0f32..80.0, 0.4f32..2.5, prop_oneof![2 => Just(None), 1 => (-3.2f32..3.2).prop_map(Some)], 0.0f32..3.0), 4),
        0.05f32..0.95,
        prop_oneof![2 => Just(None), 1 => Just(Some(0.0f32)), 2 => (0.2f32..0.8).prop_map(Some), 1 => Just(Some(200.0f32))],
        0u8..3,
        proptest::collection::vec(prop_oneof![3 => Just(None), 1 => (-1.5f32..1.5, -1.5f32..1.5, -1.6f32..1.6, 0u8..2).prop_map(Some)], 40),
        // unit of length: pixels, or coordinates normalised to the image (boxes of 0.005..0.08)
        prop_oneof![5 => Just(1.0f32), 2 => Just(1e-3f32)],
        // the whole scene far away from the origin (a tile of a huge mosaic): the centres then sit
        // on the coarse f32 grid there, the boxes keep their size
        prop_oneof![12 => Just(0.0f32), 1 => Just(16_777_216.0f32), 1 => Just(-30_000_000.0f32)],
    )
        .prop_map(|(specs, clusters, nms_thr, score_thr, score_mode, reuse, unit, shift)| {
            let shift = if unit == 1.0 { shift } else { 0.0 };
            let mut boxes: Vec<(UB, Option<f32>)> = vec![];
            for s in specs {
                if s.dup && !boxes.is_empty() {
                    let prev = boxes[boxes.len() - 1];
                    boxes.push(prev);
                    continue;
                }
                let (cx, cy, ch, casp, cang, spread) = clusters[s.cluster];
                let h = ch * s.fh;
                let w = ch * casp * s.fw;
                let angle = match (cang, s.rot) {
                    (None, None) => None,
                    (a, r) => Some(a.unwrap_or(0.0) + r.unwrap_or(0.0)),
                };
                let mut b = UB::new(unit * (cx + s.ox * ch * (1.0 + spread)) + shift, unit * (cy + s.oy * ch * (1.0 + spread)) - shift, angle, w / h, unit * h);
                match s.invalid {
                    1 => b.height = 0.0,
                    2 => b.height = -h,
                    3 => b.aspect = if s.score_none { 0.0 } else { -b.aspect },
                    _ => {}
                }
                let score = match score_mode {
                    0 => None,
                    1 => Some(s.score),
                    _ => if s.score_none { None } else { Some(s.score) },
                };
                boxes.push((b, score));
            }
            let reused = boxes.iter().enumerate().map(|(i, (b, _))| {
                reuse.get(i).copied().flatten().filter(|_| b.height > 0.0 && b.aspect > 0.0).map(|(dx, dy, da, flag)| {
                    let mut old = *b;
                    old.xc += dx * b.height;
                    old.yc += dy * b.height;
                    old.angle = Some(b.angle.unwrap_or(0.0) + da);
                    (old, flag)
                })
            }).collect();
            NmsCase { boxes, nms_thr, score_thr, exact: false, reused }
        })
}

/// integer boxes on a small grid with sizes that are powers of two, dyadic thresholds
pub fn exact_case() -> impl Strategy<Value = NmsCase> {
    (
        proptest::collection::vec((0i32..12, 0i32..12, prop_oneof![Just(2i32), Just(4), Just(8)], prop_oneof![Just(2i32), Just(4), Just(8)], prop_oneof![2 => Just(None), 3 => (1u8..6).prop_map(|k| Some(k as f32 / 8.0))], any::<bool>()), 0..10),
        prop_oneof![Just(0.125f32), Just(0.25), Just(0.375), Just(0.5), Just(0.625), Just(0.75)],
        prop_oneof![2 => Just(None), 1 => Just(Some(0.25f32))],
    )
        .prop_map(|(v, nms_thr, score_thr)| NmsCase {
            boxes: v.into_iter().map(|(l, t, w, h, s, zero_angle)| {
                let mut b = UB::ltwh(l as f32, t as f32, w as f32, h as f32);
                if zero_angle {
                    b.angle = Some(0.0);
                }
                (b, s)
            }).collect(),
            nms_thr,
            score_thr,
            exact: true,
            reused: vec![],
        })
}

fn rank(b: &UB, s: Option<f32>) -> f32 {
    s.unwrap_or(b.height)
}

pub fn check_nms(c: &NmsCase) -> CaseResult {
    let input: Vec<(Universal2DBox, Option<f32>)> = c.boxes.iter().enumerate().map(|(i, (_, s))| (materialize(c, i), *s)).collect();
    let out = nms(&input, c.nms_thr, c.score_thr);
    // recover indices by address
    let base = input.as_ptr() as usize;
    let stride = std::mem::size_of::<(Universal2DBox, Option<f32>)>();
    let mut kept: Vec<usize> = vec![];
    for r in &out {
        let addr = *r as *const Universal2DBox as usize;
        ensure!(addr >= base && addr < base + stride * input.len().max(1) && input.len() > 0, "nms-foreign-ref", "returned reference does not point into the input slice");
        let idx = (addr - base) / stride;
        ensure!(std::ptr::eq(&input[idx].0, *r), "nms-foreign-ref", "returned reference is not an input box");
        kept.push(idx);
    }
    let thr = c.score_thr;
    let valid = |i: usize| c.boxes[i].0.height > 0.0 && c.boxes[i].0.aspect > 0.0;
    // three-valued score filter: equality with the threshold accepts either outcome
    let passes = |i: usize| -> Option<bool> {
        match (c.boxes[i].1, thr) {
            (_, None) => Some(true),
            (None, Some(_)) => Some(true),
            (Some(s), Some(t)) => if s == t { None } else { Some(s > t) },
        }
    };
    let mut seen = std::collections::HashSet::new();
    for &i in &kept {
        ensure!(seen.insert(i), "nms-duplicate", "box {} returned twice", i);
        ensure!(valid(i), "nms-invalid-kept", "invalid box {} (height {}, aspect {}) kept", i, c.boxes[i].0.height, c.boxes[i].0.aspect);
        ensure!(passes(i) != Some(false), "nms-filter", "box {} with score {:?} kept despite score threshold {:?}", i, c.boxes[i].1, thr);
    }
    // rank order
    for w in kept.windows(2) {
        let (r0, r1) = (rank(&c.boxes[w[0]].0, c.boxes[w[0]].1), rank(&c.boxes[w[1]].0, c.boxes[w[1]].1));
        ensure!(r0 >= r1, "nms-order", "output not ordered by decreasing rank: {} before {}", r0, r1);
    }
    let survivors: Vec<usize> = (0..c.boxes.len()).filter(|&i| valid(i) && passes(i) == Some(true)).collect();
    if let Some(top) = survivors.iter().map(|&i| rank(&c.boxes[i].0, c.boxes[i].1)).fold(None, |m: Option<f32>, r| Some(m.map_or(r, |x| x.max(r)))) {
        ensure!(!kept.is_empty(), "nms-top", "no box kept although {} boxes pass the filter", survivors.len());
        let first = rank(&c.boxes[kept[0]].0, c.boxes[kept[0]].1);
        ensure!(first >= top, "nms-top", "first kept box has rank {} but a filter survivor has rank {}", first, top);
    }
    // coverage relations
    let rb: Vec<geom::RBox> = c.boxes.iter().map(|(b, _)| b.rbox()).collect();
    let cover = |k: usize, d: usize| -> (f64, f64) {
        let i = geom::intersection_area(&rb[k], &rb[d]);
        let mag = rb[k].xc.abs().max(rb[k].yc.abs()) + rb[k].radius() + rb[d].radius();
        let band = if c.exact { 0.0 } else { 2e-4 + 1e3 * f64::EPSILON * mag * mag / rb[d].area() };
        (i / rb[d].area(), band)
    };
    let t = c.nms_thr as f64;
    let mut overlap_kept = false;
    let mut band_hit = false;
    for (pos, &k2) in kept.iter().enumerate() {
        for &k1 in &kept[..pos] {
            let (cv, band) = cover(k1, k2);
            if cv > 0.0 {
                overlap_kept = true;
            }
            if (cv - t).abs() <= band && !c.exact {
                band_hit = true;
            }
            ensure!(cv <= t + band, "nms-kept-covered", "kept box {} is covered {:.6} > threshold {} by higher-ranked kept box {}", k2, cv, t, k1);
        }
    }
    let mut suppressed = 0;
    for &d in &survivors {
        if seen.contains(&d) {
            continue;
        }
        suppressed += 1;
        let rd = rank(&c.boxes[d].0, c.boxes[d].1);
        let mut justified = false;
        for &k in &kept {
            if rank(&c.boxes[k].0, c.boxes[k].1) >= rd {
                let (cv, band) = cover(k, d);
                if (cv - t).abs() <= band {
                    band_hit = true;
                }
                // (exact class: covered by strictly more than the threshold)
                if cv > t - band {
                    justified = true;
                    break;
                }
            }
        }
        ensure!(justified, "nms-dropped-uncovered", "box {} (rank {}) dropped but no kept box of at least its rank covers it by more than {}", d, rd, t);
    }
    // idempotence
    let again_in: Vec<(Universal2DBox, Option<f32>)> = kept.iter().map(|&i| (c.boxes[i].0.lib(), c.boxes[i].1)).collect();
    let again = nms(&again_in, c.nms_thr, c.score_thr);
    let abase = again_in.as_ptr() as usize;
    let again_idx: Vec<usize> = again.iter().map(|r| (*r as *const Universal2DBox as usize - abase) / stride).collect();
    let band_filter = kept.iter().any(|&i| passes(i).is_none());
    if !band_filter {
        ensure!(again_idx == (0..kept.len()).collect::<Vec<_>>(), "nms-idempotent", "second application returns {:?} of {} kept boxes", again_idx, kept.len());
    }
    Ok(CaseOk::new(suppressed > 0 && overlap_kept)
        .label_if(suppressed > 0, "suppression")
        .label_if(overlap_kept, "kept_overlap")
        .label_if(band_hit, "band")
        .label_if(c.boxes.iter().any(|(b, _)| b.height > 0.0 && b.height < 0.1), "normalised_coordinates")
        .label_if(c.reused.iter().any(|r| r.is_some()), "reused_box_objects")
        .label_if(c.boxes.iter().any(|(b, _)| !(b.height > 0.0 && b.aspect > 0.0)), "invalid_present")
        .label_if(kept.is_empty(), "empty_output"))
}

pub fn run(env: &Env, rep: &Report) {
    stall_watchdog(300);
    rep.set_rule("lists of 0..40 boxes in up to 4 clusters (duplicates, nested, rotated, sparse), scores absent/present/mixed with ties, nms threshold 0.05..0.95, score threshold None/below/inside/above, invalid boxes mixed in. Non-trivial: >=1 box dropped by suppression and >=1 kept box overlapping a higher-ranked kept box; distinct = distinct serialized case");
    rep.assume("coverage of the lower-ranked box computed with oracle/geom.rs; decisions within 2e-4 of the threshold accept either outcome; score equal to the score threshold accepts either outcome");
    par_generated(rep, "lists", nms_case, env.tier.pick(1_200_000, 20_000_000), workers(), check_nms);
    par_generated(rep, "exact-lists", exact_case, env.tier.pick(600_000, 8_000_000), workers(), check_nms);
}

pub fn replay(sub: &str, case: Value) -> Option<CaseResult> {
    match sub {
        "lists" | "exact-lists" => Some(replay_case(case, check_nms, sub)),
        _ => None,
    }
}
