//! C18 Python bindings are a faithful projection of the Rust API: the Rust side of the
//! differential (`check C18 --child pydriver`) and the orchestration of the Hypothesis run.

use crate::core::*;
use geo::CoordsIter;
use nalgebra::Point2;
use serde_json::{json, Value};
use similari::prelude::*;
use similari::trackers::batch::PredictionBatchRequest;
use similari::trackers::sort::{SortTrack, WastedSortTrack};
use similari::trackers::tracker_api::TrackerAPI;
use similari::trackers::visual_sort::batch_api::BatchVisualSort;
use similari::trackers::visual_sort::WastedVisualSortTrack;
use similari::utils::kalman::kalman_2d_box::Universal2DBoxKalmanFilter;
use similari::utils::kalman::kalman_2d_point::Point2DKalmanFilter;
use similari::utils::kalman::kalman_2d_point_vec::Vec2DKalmanFilter;
use std::io::{BufRead, Write};

fn f(v: &Value) -> f32 {
    v.as_f64().unwrap() as f32
}
fn of(v: &Value) -> Option<f32> {
    v.as_f64().map(|x| x as f32)
}

fn mk_ubox(b: &Value) -> Universal2DBox {
    match b["ctor"].as_str().unwrap() {
        "new" => Universal2DBox::new(f(&b["xc"]), f(&b["yc"]), of(&b["angle"]), f(&b["aspect"]), f(&b["height"])),
        "new_with_confidence" => Universal2DBox::new_with_confidence(f(&b["xc"]), f(&b["yc"]), of(&b["angle"]), f(&b["aspect"]), f(&b["height"]), f(&b["confidence"])),
        "ltwh" => Universal2DBox::ltwh(f(&b["left"]), f(&b["top"]), f(&b["width"]), f(&b["height"])),
        _ => Universal2DBox::ltwh_with_confidence(f(&b["left"]), f(&b["top"]), f(&b["width"]), f(&b["height"]), f(&b["confidence"])),
    }
}

fn ubox_trace(u: &Universal2DBox) -> Value {
    json!([u.xc, u.yc, u.angle, u.aspect, u.height, u.confidence])
}

fn bbox_trace(b: &BoundingBox) -> Value {
    json!([b.left, b.top, b.width, b.height, b.confidence])
}

fn track_trace(t: &SortTrack) -> Value {
    json!({"id": t.id, "epoch": t.epoch, "scene": t.scene_id, "length": t.length, "custom": t.custom_object_id,
        "observed": ubox_trace(&t.observed_bbox), "predicted": ubox_trace(&t.predicted_bbox), "voting": format!("PyVotingType({:?})", t.voting_type)})
}

fn wasted_sort_trace(w: &WastedSortTrack) -> Value {
    json!({"id": w.id, "epoch": w.epoch, "scene": w.scene_id, "length": w.length, "observed": ubox_trace(&w.observed_bbox), "predicted": ubox_trace(&w.predicted_bbox),
        "observed_boxes": w.observed_boxes.iter().map(ubox_trace).collect::<Vec<_>>(), "predicted_boxes": w.predicted_boxes.iter().map(ubox_trace).collect::<Vec<_>>()})
}

fn wasted_vis_trace(w: &WastedVisualSortTrack) -> Value {
    json!({"id": w.id, "epoch": w.epoch, "scene": w.scene_id, "length": w.length, "observed": ubox_trace(&w.observed_bbox), "predicted": ubox_trace(&w.predicted_bbox),
        "observed_boxes": w.observed_boxes.iter().map(ubox_trace).collect::<Vec<_>>(), "predicted_boxes": w.predicted_boxes.iter().map(ubox_trace).collect::<Vec<_>>(),
        "observed_features": w.observed_features})
}

fn err() -> Value {
    json!({"error": true})
}

fn g(fun: impl FnOnce() -> Value) -> Value {
    match guard(fun) {
        Ok(v) => v,
        Err(_) => err(),
    }
}

fn method_of(m: &Value) -> PositionalMetricType {
    if m.as_str() == Some("maha") {
        PositionalMetricType::Mahalanobis
    } else {
        let t = f(&m[1]);
        assert!(t > 0.0 && t < 1.0);
        PositionalMetricType::IoU(t)
    }
}

fn constraints_of(c: &Value) -> SpatioTemporalConstraints {
    let mut x = SpatioTemporalConstraints::default();
    x.add_constraints(c.as_array().unwrap().iter().map(|e| (e[0].as_u64().unwrap() as usize, f(&e[1]))).collect());
    x
}

fn section(s: &Value) -> Value {
    match s["kind"].as_str().unwrap() {
        "bbox" => g(|| {
            let mut b = if s["ctor"] == "new" { BoundingBox::new(f(&s["left"]), f(&s["top"]), f(&s["width"]), f(&s["height"])) } else { BoundingBox::new_with_confidence(f(&s["left"]), f(&s["top"]), f(&s["width"]), f(&s["height"]), f(&s["confidence"])) };
            for e in s["sets"].as_array().unwrap() {
                let v = f(&e[1]);
                match e[0].as_str().unwrap() {
                    "left" => b.left = v,
                    "top" => b.top = v,
                    "width" => b.width = v,
                    "height" => b.height = v,
                    _ => b.confidence = v,
                }
            }
            json!({"bbox": bbox_trace(&b), "xyaah": ubox_trace(&b.as_xyaah())})
        }),
        "ubox" => g(|| {
            let mut u = mk_ubox(&s["box"]);
            let mut tr: Vec<Value> = vec![];
            for e in s["edits"].as_array().unwrap() {
                match e[0].as_str().unwrap() {
                    "xc" => u.xc = f(&e[1]),
                    "yc" => u.yc = f(&e[1]),
                    "angle" => u.angle = of(&e[1]),
                    "aspect" => u.aspect = f(&e[1]),
                    "height" => u.height = f(&e[1]),
                    "rotate" => u.rotate_mut(f(&e[1])),
                    "gen_vertices" => {
                        u.gen_vertices();
                    }
                    _ => {
                        let c = f(&e[1]);
                        // documented contract of the setter: confidence must lie in [0, 1]
                        if (0.0..=1.0).contains(&c) {
                            u.set_confidence(c);
                            tr.push(json!("ok"));
                        } else {
                            tr.push(json!("confidence-rejected"));
                        }
                    }
                }
                // the polygon reported after every edit is that of the box as it is now
                tr.push(Value::Array(u.get_vertices().coords_iter().map(|c| json!([c.x, c.y])).collect()));
            }
            let ltwh = match BoundingBox::try_from(&u) {
                Ok(b) => bbox_trace(&b),
                Err(_) => err(),
            };
            let pts: Vec<Value> = u.get_vertices().coords_iter().map(|c| json!([c.x, c.y])).collect();
            json!({"ubox": ubox_trace(&u), "radius": u.get_radius(), "area": u.area(), "ltwh": ltwh, "vertices": pts, "edits": tr})
        }),
        "geom" => g(|| {
            let (a, b) = (mk_ubox(&s["a"]), mk_ubox(&s["b"]));
            let poly = a.clone().sutherland_hodgman_clip(b.clone());
            let pts: Vec<Value> = poly.coords_iter().map(|c| json!([c.x, c.y])).collect();
            json!({"clip": pts, "area": geo::Area::unsigned_area(&a.sutherland_hodgman_clip(b))})
        }),
        "nms" => g(|| {
            let dets: Vec<(Universal2DBox, Option<f32>)> = s["dets"].as_array().unwrap().iter().map(|d| (mk_ubox(&d["box"]), of(&d["score"]))).collect();
            let out = similari::utils::nms::nms(&dets, f(&s["nms_threshold"]), of(&s["score_threshold"]));
            Value::Array(out.into_iter().map(ubox_trace).collect())
        }),
        "kf_box" => g(|| {
            let kf = if s["weights"].is_null() { Universal2DBoxKalmanFilter::new(0.05, 0.00625) } else { Universal2DBoxKalmanFilter::new(f(&s["weights"][0]), f(&s["weights"][1])) };
            let mut cur = mk_ubox(&s["init"]);
            let mut state = kf.initiate(&cur);
            let ub = |st| Universal2DBox::try_from(st).unwrap();
            let mut tr = vec![ubox_trace(&ub(state))];
            for stp in s["steps"].as_array().unwrap() {
                match stp[0].as_str().unwrap() {
                    "predict" => {
                        state = kf.predict(&state);
                        tr.push(ubox_trace(&ub(state)));
                    }
                    "update" => {
                        cur = Universal2DBox::new(cur.xc + f(&stp[1]), cur.yc + f(&stp[2]), cur.angle, cur.aspect, cur.height * f(&stp[3]));
                        state = kf.update(&state, &cur);
                        tr.push(ubox_trace(&ub(state)));
                        tr.push(match BoundingBox::try_from(&ub(state)) {
                            Ok(b) => bbox_trace(&b),
                            Err(_) => err(),
                        });
                    }
                    "distance" => {
                        let z = Universal2DBox::new(cur.xc + f(&stp[1]), cur.yc + f(&stp[2]), cur.angle, cur.aspect, cur.height);
                        tr.push(json!(kf.distance(state, &z)));
                    }
                    _ => tr.push(json!(Universal2DBoxKalmanFilter::calculate_cost(f(&stp[1]), stp[2].as_bool().unwrap()))),
                }
            }
            Value::Array(tr)
        }),
        "kf_point" => g(|| {
            let (wp, wv) = if s["weights"].is_null() { (0.05f32, 0.00625f32) } else { (f(&s["weights"][0]), f(&s["weights"][1])) };
            let pts: Vec<(f32, f32)> = s["points"].as_array().unwrap().iter().map(|p| (f(&p[0]), f(&p[1]))).collect();
            let mut tr = vec![];
            if s["vec"].as_bool().unwrap() {
                let kf = Vec2DKalmanFilter::new(wp, wv);
                let mut cur = pts.clone();
                let p2 = |v: &Vec<(f32, f32)>| v.iter().map(|(x, y)| Point2::from([*x, *y])).collect::<Vec<_>>();
                let mut state = kf.initiate(&p2(&cur));
                for stp in s["steps"].as_array().unwrap() {
                    match stp[0].as_str().unwrap() {
                        "predict" => state = kf.predict(&state),
                        "update" => {
                            cur = cur.iter().map(|(x, y)| (x + f(&stp[1]), y + f(&stp[2]))).collect();
                            state = kf.update(&state, &p2(&cur));
                        }
                        "distance" => {
                            let z: Vec<(f32, f32)> = cur.iter().map(|(x, y)| (x + f(&stp[1]), y + f(&stp[2]))).collect();
                            tr.push(json!(kf.distance(&state, &p2(&z))));
                        }
                        _ => tr.push(json!(Vec2DKalmanFilter::calculate_cost(&[f(&stp[1]), f(&stp[1]) / 2.0], stp[2].as_bool().unwrap()))),
                    }
                    tr.push(Value::Array(state.iter().map(|st| { let p: Point2<f32> = Point2::from(*st); json!([p.x, p.y]) }).collect()));
                }
            } else {
                let kf = Point2DKalmanFilter::new(wp, wv);
                let (mut x, mut y) = pts[0];
                let mut state = kf.initiate(&Point2::from([x, y]));
                for stp in s["steps"].as_array().unwrap() {
                    match stp[0].as_str().unwrap() {
                        "predict" => state = kf.predict(&state),
                        "update" => {
                            x += f(&stp[1]);
                            y += f(&stp[2]);
                            state = kf.update(&state, &Point2::from([x, y]));
                        }
                        "distance" => tr.push(json!(kf.distance(&state, &Point2::from([x + f(&stp[1]), y + f(&stp[2])])))),
                        _ => tr.push(json!(Point2DKalmanFilter::calculate_cost(f(&stp[1]), stp[2].as_bool().unwrap()))),
                    }
                    let p: Point2<f32> = Point2::from(state);
                    tr.push(json!([p.x, p.y]));
                }
            }
            Value::Array(tr)
        }),
        "constraints" => g(|| {
            let mut c = SpatioTemporalConstraints::default();
            for b in s["batches"].as_array().unwrap() {
                c.add_constraints(b.as_array().unwrap().iter().map(|e| (e[0].as_u64().unwrap() as usize, f(&e[1]))).collect());
            }
            Value::Array(s["probes"].as_array().unwrap().iter().map(|p| json!(c.validate(p[0].as_u64().unwrap() as usize, f(&p[1])))).collect())
        }),
        "sort" | "batch_sort" | "visual" | "batch_visual" => g(|| tracker_section(s)),
        k => json!({"unknown-kind": k}),
    }
}

/// order independent of the raw ids (schedule dependent for the batch trackers)
fn order_key(a: &Value, b: &Value) -> std::cmp::Ordering {
    let k = |x: &Value| (x["scene"].as_u64().unwrap(), x["epoch"].as_u64().unwrap(), x["length"].as_u64().unwrap(), x["observed"][0].as_f64().unwrap(), x["observed"][1].as_f64().unwrap());
    k(a).partial_cmp(&k(b)).unwrap()
}

use crate::trk::Tracker as T;

/// `voting.job.end` events seen by this process (batch trackers; schedule points of the hook build)
static JOBS_DONE: std::sync::atomic::AtomicU64 = std::sync::atomic::AtomicU64::new(0);

fn install_job_counter() {
    similari::verif_hooks::set_callback(Some(std::sync::Arc::new(|site: &'static str, _a: u64, _b: u64| {
        if site == "voting.job.end" {
            JOBS_DONE.fetch_add(1, std::sync::atomic::Ordering::SeqCst);
        }
    })));
}

fn wait_jobs(target: u64) {
    let t0 = std::time::Instant::now();
    while JOBS_DONE.load(std::sync::atomic::Ordering::SeqCst) < target && t0.elapsed().as_secs() < 20 {
        std::thread::sleep(std::time::Duration::from_micros(200));
    }
}

fn det_of(d: &Value) -> crate::trk::Det {
    crate::trk::Det { b: crate::gen::boxes::UB::from_lib(&mk_ubox(&d["box"])), custom: d["custom"].as_i64(), feat: d["feature"].as_array().map(|a| a.iter().map(f).collect()), q: of(&d["quality"]) }
}

fn pairs_of(v: &Value) -> Vec<(usize, f32)> {
    v.as_array().unwrap().iter().map(|e| (e[0].as_u64().unwrap() as usize, f(&e[1]))).collect()
}

fn pos_of(v: &Value) -> crate::trk::Pos {
    if v.is_array() { crate::trk::Pos::IoU(f(&v[1])) } else { crate::trk::Pos::Maha }
}

fn tracker_section(s: &Value) -> Value {
    let kind = s["kind"].as_str().unwrap();
    let visual = kind.contains("visual");
    let batch = kind.starts_with("batch");
    // documented defaults of the Python constructors
    use crate::trk::{Cfg, Kind, VisCfg};
    let (mut tr, cfg) = if !visual {
        let a = &s["args"];
        let shards = a["shards"].as_u64().unwrap_or(4) as usize;
        let voting = a["voting_shards"].as_u64().unwrap_or(4) as usize;
        let hist = a["bbox_history"].as_u64().unwrap_or(1) as usize;
        let idle = a["max_idle_epochs"].as_u64().unwrap_or(5) as usize;
        let method = if a["method"].is_null() { PositionalMetricType::Mahalanobis } else { method_of(&a["method"]) };
        let minc = of(&a["min_confidence"]).unwrap_or(0.05);
        let cons = if a["constraints"].is_null() { None } else { Some(constraints_of(&a["constraints"])) };
        let wp = of(&a["kalman_position_weight"]).unwrap_or(1.0 / 20.0);
        let wv = of(&a["kalman_velocity_weight"]).unwrap_or(1.0 / 160.0);
        let cfg = Cfg {
            kind: if batch { Kind::BatchSort } else { Kind::Sort },
            shards,
            voting_shards: voting,
            history: hist,
            max_idle: idle,
            pos: if a["method"].is_null() { crate::trk::Pos::Maha } else { pos_of(&a["method"]) },
            min_conf: minc,
            constraints: if a["constraints"].is_null() { None } else { Some(pairs_of(&a["constraints"])) },
            wp,
            wv,
            vis: VisCfg::default(),
        };
        if batch {
            (T::BS(BatchSort::new(shards, voting, hist, idle, method, minc, cons, wp, wv)), cfg)
        } else {
            (T::S(Sort::new(shards, hist, idle, method, minc, cons, wp, wv)), cfg)
        }
    } else {
        let mut o = VisualSortOptions::default();
        // mirror of VisualSortOptions::default() / VisualMetricBuilder::default() for the decision shadow
        // (only used to find calls whose outcome is legitimately ambiguous)
        let shards = s["shards"].as_u64().unwrap() as usize;
        let mut cfg = Cfg {
            kind: if batch { Kind::BatchVisualSort } else { Kind::VisualSort },
            shards,
            voting_shards: s["voting_shards"].as_u64().unwrap_or(1) as usize,
            history: 10,
            max_idle: 2,
            pos: crate::trk::Pos::IoU(0.3),
            min_conf: 0.1,
            constraints: None,
            wp: 1.0 / 20.0,
            wv: 1.0 / 160.0,
            vis: VisCfg { cosine: false, threshold: f32::MAX, min_votes: 1, min_track_len: 3, max_obs: 5, q_use: 0.0, q_collect: 0.0, min_area: 0.0, own_use: 0.0, own_collect: 0.0 },
        };
        for (name, v) in s["opts"].as_object().unwrap() {
            o = match name.as_str() {
                "max_idle_epochs" => { cfg.max_idle = v.as_u64().unwrap() as usize; o.max_idle_epochs(v.as_u64().unwrap() as usize) }
                "kept_history_length" => { cfg.history = v.as_u64().unwrap() as usize; o.kept_history_length(v.as_u64().unwrap() as usize) }
                "visual_min_votes" => { cfg.vis.min_votes = v.as_u64().unwrap() as usize; o.visual_min_votes(v.as_u64().unwrap() as usize) }
                "visual_metric" => { cfg.vis.cosine = v[0] != "euclidean"; cfg.vis.threshold = f(&v[1]); o.visual_metric(if v[0] == "euclidean" { VisualSortMetricType::euclidean(f(&v[1])) } else { VisualSortMetricType::cosine(f(&v[1])) }) }
                "positional_metric" => { cfg.pos = pos_of(v); o.positional_metric(method_of(v)) }
                "visual_max_observations" => { cfg.vis.max_obs = v.as_u64().unwrap() as usize; o.visual_max_observations(v.as_u64().unwrap() as usize) }
                "visual_minimal_track_length" => { cfg.vis.min_track_len = v.as_u64().unwrap() as usize; o.visual_minimal_track_length(v.as_u64().unwrap() as usize) }
                "visual_minimal_area" => { cfg.vis.min_area = f(v); o.visual_minimal_area(f(v)) }
                "visual_minimal_quality_use" => { cfg.vis.q_use = f(v); o.visual_minimal_quality_use(f(v)) }
                "visual_minimal_quality_collect" => { cfg.vis.q_collect = f(v); o.visual_minimal_quality_collect(f(v)) }
                "visual_minimal_own_area_percentage_use" => { cfg.vis.own_use = f(v); o.visual_minimal_own_area_percentage_use(f(v)) }
                "visual_minimal_own_area_percentage_collect" => { cfg.vis.own_collect = f(v); o.visual_minimal_own_area_percentage_collect(f(v)) }
                "positional_min_confidence" => { cfg.min_conf = f(v); o.positional_min_confidence(f(v)) }
                "kalman_position_weight" => { cfg.wp = f(v); o.kalman_position_weight(f(v)) }
                "kalman_velocity_weight" => { cfg.wv = f(v); o.kalman_velocity_weight(f(v)) }
                "constraints" => { cfg.constraints = Some(pairs_of(v)); o.spatio_temporal_constraints(constraints_of(v)) }
                other => panic!("unknown option {}", other),
            };
        }
        if batch {
            (T::BV(BatchVisualSort::new(shards, s["voting_shards"].as_u64().unwrap() as usize, &o)), cfg)
        } else {
            (T::V(VisualSort::new(shards, &o)), cfg)
        }
    };
    // A call whose decision margin (f64 shadow of the call, props/shadow.rs) is below 1e-4 may be
    // decided either way by the library itself (ties are broken by hash order of random candidate
    // ids): the trace ends there with a marker and the comparison of this section is cut.
    let ambiguous = |tr: &T, scene: u64, dets: &[Value]| -> bool {
        let d: Vec<crate::trk::Det> = dets.iter().map(det_of).collect();
        let views = tr.views(cfg.shards);
        let epoch = tr.epoch(scene) + 1;
        crate::props::trkmon::call_margin(&cfg, &views, scene, epoch, &d) < crate::props::trkmon::MARGIN
    };
    let mut out = vec![];
    let mut jobs_target = 0u64;
    for op in s["ops"].as_array().unwrap() {
        let scene = op["scene"].as_u64().unwrap_or(0);
        match op["op"].as_str().unwrap() {
            "predict" => {
                let dets = op["dets"].as_array().unwrap();
                if dets.is_empty() && batch {
                    out.push(json!([]));
                    continue;
                }
                if ambiguous(&tr, scene, dets) {
                    out.push(json!({"ambiguous-call": true}));
                    break;
                }
                let feats: Vec<Option<Vec<f32>>> = dets.iter().map(|d| d["feature"].as_array().map(|a| a.iter().map(f).collect())).collect();
                let traces = |ts: &[SortTrack]| Value::Array(ts.iter().map(track_trace).collect());
                match &mut tr {
                    T::S(t) => {
                        let b: Vec<(Universal2DBox, Option<i64>)> = dets.iter().map(|d| (mk_ubox(&d["box"]), d["custom"].as_i64())).collect();
                        out.push(traces(&t.predict_with_scene(scene, &b)));
                    }
                    T::V(t) => {
                        let obs: Vec<VisualSortObservation> = dets.iter().enumerate().map(|(i, d)| VisualSortObservation::new(feats[i].as_deref(), of(&d["quality"]), mk_ubox(&d["box"]), d["custom"].as_i64())).collect();
                        out.push(traces(&t.predict_with_scene(scene, &obs)));
                    }
                    T::BS(t) => {
                        let (mut req, res) = PredictionBatchRequest::<(Universal2DBox, Option<i64>)>::new();
                        for d in dets {
                            req.add(scene, (mk_ubox(&d["box"]), d["custom"].as_i64()));
                        }
                        t.predict(req);
                        let mut got: Vec<(u64, Vec<SortTrack>)> = (0..res.batch_size()).map(|_| res.get()).collect();
                        got.sort_by_key(|x| x.0);
                        out.push(Value::Array(got.iter().map(|(sc, ts)| json!([sc, traces(ts)])).collect()));
                    }
                    T::BV(t) => {
                        let (mut req, res) = PredictionBatchRequest::<VisualSortObservation>::new();
                        for (i, d) in dets.iter().enumerate() {
                            req.add(scene, VisualSortObservation::new(feats[i].as_deref(), of(&d["quality"]), mk_ubox(&d["box"]), d["custom"].as_i64()));
                        }
                        t.predict(req);
                        let mut got: Vec<(u64, Vec<SortTrack>)> = (0..res.batch_size()).map(|_| res.get()).collect();
                        got.sort_by_key(|x| x.0);
                        out.push(Value::Array(got.iter().map(|(sc, ts)| json!([sc, traces(ts)])).collect()));
                    }
                }
            }
            "predict_multi" => {
                let traces = |ts: &[SortTrack]| Value::Array(ts.iter().map(track_trace).collect());
                let parts = op["parts"].as_array().unwrap();
                if parts.iter().any(|p| ambiguous(&tr, p["scene"].as_u64().unwrap(), p["dets"].as_array().unwrap())) {
                    out.push(json!({"ambiguous-call": true}));
                    break;
                }
                let mut got: Vec<(u64, Vec<SortTrack>)> = match &mut tr {
                    T::BS(t) => {
                        let (mut req, res) = PredictionBatchRequest::<(Universal2DBox, Option<i64>)>::new();
                        for p in parts {
                            for d in p["dets"].as_array().unwrap() {
                                req.add(p["scene"].as_u64().unwrap(), (mk_ubox(&d["box"]), d["custom"].as_i64()));
                            }
                        }
                        t.predict(req);
                        (0..res.batch_size()).map(|_| res.get()).collect()
                    }
                    T::BV(t) => {
                        let feats: Vec<Vec<Option<Vec<f32>>>> = parts.iter().map(|p| p["dets"].as_array().unwrap().iter().map(|d| d["feature"].as_array().map(|a| a.iter().map(f).collect())).collect()).collect();
                        let (mut req, res) = PredictionBatchRequest::<VisualSortObservation>::new();
                        for (pi, p) in parts.iter().enumerate() {
                            for (i, d) in p["dets"].as_array().unwrap().iter().enumerate() {
                                req.add(p["scene"].as_u64().unwrap(), VisualSortObservation::new(feats[pi][i].as_deref(), of(&d["quality"]), mk_ubox(&d["box"]), d["custom"].as_i64()));
                            }
                        }
                        t.predict(req);
                        (0..res.batch_size()).map(|_| res.get()).collect()
                    }
                    _ => panic!("predict_multi on a simple tracker"),
                };
                let nres = got.len();
                got.sort_by_key(|x| x.0);
                out.push(json!([nres, got.iter().map(|(sc, ts)| json!([sc, traces(ts)])).collect::<Vec<_>>()]));
            }
            "predict_pipelined" => {
                let traces = |ts: &[SortTrack]| Value::Array(ts.iter().map(track_trace).collect());
                let mut frames_out = vec![];
                enum R {
                    S(similari::trackers::batch::PredictionBatchResult),
                }
                let mut ress = vec![];
                let mut cut = false;
                for dets in op["frames"].as_array().unwrap() {
                    let dets = dets.as_array().unwrap();
                    // the previous frame has been voted (not yet retrieved) before the margin of the
                    // next one is taken from the store; predict() itself waits for the same moment
                    wait_jobs(jobs_target);
                    if ambiguous(&tr, scene, dets) {
                        cut = true;
                        break;
                    }
                    jobs_target = JOBS_DONE.load(std::sync::atomic::Ordering::SeqCst) + 1;
                    match &mut tr {
                        T::BS(t) => {
                            let (mut req, res) = PredictionBatchRequest::<(Universal2DBox, Option<i64>)>::new();
                            for d in dets {
                                req.add(scene, (mk_ubox(&d["box"]), d["custom"].as_i64()));
                            }
                            t.predict(req);
                            ress.push(R::S(res));
                        }
                        T::BV(t) => {
                            let feats: Vec<Option<Vec<f32>>> = dets.iter().map(|d| d["feature"].as_array().map(|a| a.iter().map(f).collect())).collect();
                            let (mut req, res) = PredictionBatchRequest::<VisualSortObservation>::new();
                            for (i, d) in dets.iter().enumerate() {
                                req.add(scene, VisualSortObservation::new(feats[i].as_deref(), of(&d["quality"]), mk_ubox(&d["box"]), d["custom"].as_i64()));
                            }
                            t.predict(req);
                            ress.push(R::S(res));
                        }
                        _ => panic!("predict_pipelined on a simple tracker"),
                    }
                }
                for R::S(res) in ress {
                    let mut got: Vec<(u64, Vec<SortTrack>)> = (0..res.batch_size()).map(|_| res.get()).collect();
                    got.sort_by_key(|x| x.0);
                    frames_out.push(Value::Array(got.iter().map(|(sc, ts)| json!([sc, traces(ts)])).collect()));
                }
                if cut {
                    out.push(json!({"ambiguous-call": true}));
                    break;
                }
                out.push(Value::Array(frames_out));
            }
            "skip" => {
                let n = op["n"].as_u64().unwrap() as usize;
                match &mut tr {
                    T::S(t) => t.skip_epochs_for_scene(scene, n),
                    T::BS(t) => t.skip_epochs_for_scene(scene, n),
                    T::V(t) => t.skip_epochs_for_scene(scene, n),
                    T::BV(t) => t.skip_epochs_for_scene(scene, n),
                }
                out.push(Value::Null);
            }
            "epoch" => out.push(json!(match &tr {
                T::S(t) => t.current_epoch_with_scene(scene),
                T::BS(t) => t.current_epoch_with_scene(scene),
                T::V(t) => t.current_epoch_with_scene(scene),
                T::BV(t) => t.current_epoch_with_scene(scene),
            })),
            "wasted" => {
                let mut v: Vec<Value> = match &mut tr {
                    T::S(t) => t.wasted().into_iter().map(|x| wasted_sort_trace(&WastedSortTrack::from(x))).collect(),
                    T::BS(t) => t.wasted().into_iter().map(|x| wasted_sort_trace(&WastedSortTrack::from(x))).collect(),
                    T::V(t) => t.wasted().into_iter().map(|x| wasted_vis_trace(&WastedVisualSortTrack::from(x))).collect(),
                    T::BV(t) => t.wasted().into_iter().map(|x| wasted_vis_trace(&WastedVisualSortTrack::from(x))).collect(),
                };
                v.sort_by(order_key);
                out.push(Value::Array(v));
            }
            "idle" => {
                let mut v: Vec<Value> = match &mut tr {
                    T::S(t) => t.idle_tracks_with_scene(scene),
                    T::BS(t) => t.idle_tracks_with_scene(scene),
                    T::V(t) => t.idle_tracks_with_scene(scene),
                    T::BV(t) => t.idle_tracks_with_scene(scene),
                }
                .iter()
                .map(track_trace)
                .collect();
                v.sort_by(order_key);
                out.push(Value::Array(v));
            }
            "clear_wasted" => {
                match &mut tr {
                    T::S(t) => t.clear_wasted(),
                    T::BS(t) => t.clear_wasted(),
                    T::V(t) => t.clear_wasted(),
                    T::BV(t) => t.clear_wasted(),
                }
                out.push(Value::Null);
            }
            // the Python `shard_stats` is documented as the amount of stored tracks per shard
            _ => out.push(match &tr {
                T::S(t) => json!(t.active_shard_stats()),
                T::V(t) => json!(t.active_shard_stats()),
                // (only the total is schedule independent for the batch trackers)
                T::BS(t) => json!(t.active_shard_stats().iter().sum::<usize>()),
                T::BV(t) => json!(t.active_shard_stats().iter().sum::<usize>()),
            }),
        }
    }
    Value::Array(out)
}

pub fn exec_script(v: &Value) -> Value {
    Value::Array(v["sections"].as_array().map(|a| a.iter().map(section).collect()).unwrap_or_default())
}

/// `check C18 --child pydriver`: one script per line in, one trace per line out
pub fn driver_loop() -> i32 {
    install_job_counter();
    let stdin = std::io::stdin();
    let stdout = std::io::stdout();
    for line in stdin.lock().lines() {
        let line = match line {
            Ok(l) => l,
            Err(_) => break,
        };
        if line.trim().is_empty() {
            continue;
        }
        let ans = match serde_json::from_str::<Value>(&line) {
            Ok(v) => exec_script(&v),
            Err(e) => json!({"bad-script": e.to_string()}),
        };
        let mut o = stdout.lock();
        let _ = writeln!(o, "{}", ans);
        let _ = o.flush();
    }
    0
}

fn build_module(env: &Env) -> Result<std::path::PathBuf, String> {
    // the cdylib is built from /repo's current working tree with the default `python` feature
    let target = env.verif_dir.join("target").join("pylib");
    let repo = std::env::var("SV_REPO").unwrap_or_else(|_| "/repo".into());
    let out = std::process::Command::new("cargo")
        .args(["build", "--release", "--lib", "--offline"])
        .current_dir(&repo)
        .env("CARGO_TARGET_DIR", &target)
        .env("CARGO_NET_OFFLINE", "true")
        .output()
        .map_err(|e| e.to_string())?;
    if !out.status.success() {
        return Err(String::from_utf8_lossy(&out.stderr).chars().rev().take(2000).collect::<String>().chars().rev().collect());
    }
    let so = target.join("release").join("libsimilari.so");
    let dir = env.verif_dir.join("target").join("pymod");
    std::fs::create_dir_all(&dir).map_err(|e| e.to_string())?;
    std::fs::copy(&so, dir.join("similari.so")).map_err(|e| format!("copy {}: {}", so.display(), e))?;
    Ok(dir)
}

fn run_python(env: &Env, so_dir: &std::path::Path, count: u32, replay: Option<&std::path::Path>) -> Result<Value, String> {
    let out_file = env.verif_dir.join("target").join(format!("c18-out-{}.json", std::process::id()));
    let exe = std::env::current_exe().map_err(|e| e.to_string())?;
    let mut cmd = std::process::Command::new("python3-vt");
    cmd.env("RUST_BACKTRACE", "0");
    cmd.arg(env.verif_dir.join("py").join("c18.py"))
        .arg("--so-dir").arg(so_dir)
        .arg("--driver").arg(exe)
        .arg("--seed").arg(env.seed.to_string())
        .arg("--count").arg(count.to_string())
        .arg("--out").arg(&out_file);
    if let Some(r) = replay {
        cmd.arg("--replay").arg(r);
    }
    let st = cmd.status().map_err(|e| format!("cannot run python3-vt: {}", e))?;
    let cur_file = std::path::PathBuf::from(format!("{}.current", out_file.display()));
    let text = match std::fs::read_to_string(&out_file) {
        Ok(t) => t,
        Err(e) => {
            // the watchdog ended the process: which side was executing which script?
            if let Ok(cur) = std::fs::read_to_string(&cur_file) {
                let _ = std::fs::remove_file(&cur_file);
                if let Ok(v) = serde_json::from_str::<Value>(&cur) {
                    return Ok(json!({"hang": v["phase"], "script": v["script"]}));
                }
            }
            return Err(format!("python side produced no result (exit {:?}): {}", st.code(), e));
        }
    };
    let _ = std::fs::remove_file(&out_file);
    let _ = std::fs::remove_file(&cur_file);
    serde_json::from_str(&text).map_err(|e| e.to_string())
}

/// A script during which the Python side did not return although the Rust API did: confirmed by
/// replaying it (and then each of its sections alone) in fresh interpreter processes.
fn confirm_hang(env: &Env, so_dir: &std::path::Path, script: &Value) -> Option<Value> {
    let hangs = |s: &Value| -> bool {
        let f = env.verif_dir.join("target").join(format!("c18-hang-{}.json", std::process::id()));
        if std::fs::write(&f, serde_json::to_string(&json!({"case": s})).unwrap()).is_err() {
            return false;
        }
        let r = run_python(env, so_dir, 1, Some(&f));
        let _ = std::fs::remove_file(&f);
        matches!(r, Ok(v) if v["hang"] == "python")
    };
    if !(hangs(script) && hangs(script)) {
        return None;
    }
    if let Some(secs) = script["sections"].as_array() {
        if secs.len() > 1 {
            for s in secs {
                let single = json!({"sections": [s]});
                if hangs(&single) {
                    return Some(single);
                }
            }
        }
    }
    Some(script.clone())
}

pub fn run(env: &Env, rep: &Report) {
    rep.set_rule("Hypothesis-generated API scripts of 1..4 sections: BoundingBox / Universal2DBox constructors, setters and every getter, clipping and intersection area, nms, the three Kalman filters (default and explicit weights), spatio-temporal constraints, and the four trackers (constructor arguments individually given or omitted, predict with and without scene, skip, epochs, wasted incl. histories and features, idle, clear, shard statistics, batch requests / results) on well separated (tie-free) objects; executed through the Python module built from the current tree and through the Rust API; traces compared exactly (batch tracker ids up to renaming). Non-trivial: a script with a tracker section of >= 3 predict calls with >= 2 detections and a wasted / idle query, or a section that touches every getter of a box class; distinct = distinct script (sha1 of its JSON)");
    rep.assume("omitted arguments are filled in by the driver from the documented defaults (Sort: 4 shards, history 1, max idle 5, Mahalanobis, min confidence 0.05, weights 1/20 and 1/160; BatchSort: 4 x 4 workers; Kalman filters 0.05 / 0.00625; VisualSortOptions::default())");
    rep.assume("exceptions / panics are compared as 'error' per section (per call where the script continues after them)");
    let so_dir = match build_module(env) {
        Ok(d) => d,
        Err(e) => {
            rep.mark_inconclusive(format!("cannot build the Python module: {}", e));
            return;
        }
    };
    let count = env.tier.pick(1_500, 20_000);
    let res = match run_python(env, &so_dir, count, None) {
        Ok(v) => v,
        Err(e) => {
            rep.mark_inconclusive(e);
            return;
        }
    };
    if !res["hang"].is_null() {
        if res["hang"] == "python" {
            match confirm_hang(env, &so_dir, &res["script"]) {
                Some(script) => {
                    let mut l = LocalStats::default();
                    l.add_external(1, 1, Default::default(), vec![script.clone()]);
                    rep.merge("scripts", l);
                    rep.record_violation("scripts", Fail::new("binding-hang", format!("the Python call sequence did not return within {} s although the same calls through the Rust API returned (reproduced twice in fresh interpreter processes)", std::env::var("SV_C18_HANG_S").unwrap_or("60".into()))), script);
                }
                None => rep.mark_inconclusive("a script did not finish on the Python side once, but completed when replayed".to_string()),
            }
        } else {
            rep.mark_inconclusive("the Rust driver did not answer within the watchdog time".to_string());
        }
        return;
    }
    let evals = res["evaluations"].as_u64().unwrap_or(0);
    let mut l = LocalStats::default();
    l.add_external(evals, res["distinct_nontrivial"].as_u64().unwrap_or(0), res["labels"].as_object().cloned().unwrap_or_default(), res["samples"].as_array().cloned().unwrap_or_default());
    rep.merge("scripts", l);
    rep.set_extra("programs", json!(evals));
    rep.set_extra("disagreements_checked", json!(evals));
    if let Some(v) = res.get("violation").filter(|v| !v.is_null()) {
        if v.get("harness").is_some() || v["script"].is_null() {
            rep.mark_inconclusive(format!("python side failed: {}", v["message"]));
        } else {
            rep.record_violation("scripts", Fail::new("binding-mismatch", v["message"].as_str().unwrap_or("?").to_string()), v["script"].clone());
        }
    }
}

pub fn replay_file(env: &Env, path: &std::path::Path) -> CaseResult {
    let so_dir = build_module(env).map_err(|e| Fail::new("harness", e))?;
    let res = run_python(env, &so_dir, 1, Some(path)).map_err(|e| Fail::new("harness", e))?;
    if res["hang"] == "python" {
        return Err(Fail::new("binding-hang", "the Python call sequence did not return although the same calls through the Rust API returned".to_string()));
    }
    if !res["hang"].is_null() {
        return Err(Fail::new("hang@driver", "the Rust driver did not answer within the watchdog time".to_string()));
    }
    match res.get("violation").filter(|v| !v.is_null()) {
        Some(v) => Err(Fail::new("binding-mismatch", v["message"].as_str().unwrap_or("?").to_string())),
        None => Ok(CaseOk::new(true)),
    }
}

pub fn replay(_sub: &str, _case: Value) -> Option<CaseResult> {
    None
}
