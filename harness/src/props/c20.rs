//! C20 Spatio-temporal constraints: pure, monotone filter (table level; tracker level is wired
//! in from `tracker_level`).

use crate::core::*;
use crate::ensure;
use serde::{Deserialize, Serialize};
use serde_json::Value;
use similari::trackers::spatio_temporal_constraints::SpatioTemporalConstraints;

pub const LIMITS: [f32; 5] = [0.25, 0.5, 1.0, 2.0, 4.0];

#[derive(Clone, Debug, Serialize, Deserialize)]
pub struct TableCase {
    /// insertion batches of (gap, limit)
    pub batches: Vec<Vec<(usize, f32)>>,
}

fn reference_limit(batches: &[Vec<(usize, f32)>], gap: usize) -> Option<f32> {
    // limit of the smallest configured gap >= d; a gap configured twice keeps its first limit
    let mut first: std::collections::BTreeMap<usize, f32> = Default::default();
    for b in batches {
        for (g, l) in b {
            first.entry(*g).or_insert(*l);
        }
    }
    first.range(gap..).next().map(|(_, l)| *l)
}

fn probes() -> Vec<f32> {
    let mut v = vec![0.0f32];
    for l in LIMITS {
        for k in [-2i32, -1, 0, 1, 2] {
            let x = f32::from_bits((l.to_bits() as i64 + k as i64) as u32);
            v.push(x);
        }
        v.push(l * 0.75);
    }
    v.push(10.0);
    v.sort_by(|a, b| a.partial_cmp(b).unwrap());
    v
}

pub fn check_table(c: &TableCase) -> CaseResult {
    let mut t = SpatioTemporalConstraints::new();
    for b in &c.batches {
        t.add_constraints(b.clone());
    }
    // builder form must agree with repeated add_constraints when there is one batch
    // the by-value builder, chained once per batch, must configure the same table
    let t2 = {
        let mut b = SpatioTemporalConstraints::default();
        for batch in &c.batches {
            b = b.constraints(batch);
        }
        Some(b)
    };
    let ps = probes();
    let mut between = false;
    let configured: std::collections::BTreeSet<usize> = c.batches.iter().flatten().map(|(g, _)| *g).collect();
    let top = configured.iter().next_back().copied().unwrap_or(0).max(8) + 2;
    for gap in 0..=top {
        let lim = reference_limit(&c.batches, gap);
        if !configured.contains(&gap) && configured.range(..gap).next().is_some() && configured.range(gap..).next().is_some() {
            between = true;
        }
        let mut prev = true;
        for &d in &ps {
            let got = t.validate(gap, d);
            let want = lim.map(|l| d <= l).unwrap_or(true);
            ensure!(got == want, "constraint-lookup", "gap {} distance {}: validate = {} but the applicable limit is {:?}", gap, d, got, lim);
            // monotone in distance: once rejected, stays rejected
            ensure!(prev || !got, "constraint-monotone", "gap {}: distance {} admitted after a smaller one was rejected", gap, d);
            prev = got;
            if let Some(t2) = &t2 {
                ensure!(t2.validate(gap, d) == got, "constraint-builder", "constraints() and add_constraints() disagree at gap {} distance {}", gap, d);
            }
        }
    }
    let raw = c.batches.iter().map(|b| b.len()).sum::<usize>();
    Ok(CaseOk::new(between).label_if(c.batches.len() > 1, "several_batches").label_if(raw > 20, "more_than_20_raw_entries").label_if(raw > configured.len(), "gap_configured_twice"))
}

/// Exhaustive tables: every assignment of {absent, limit} to gaps 0..8 is too large
/// (6^9 = 10M) for the quick tier, so the enumeration is: all tables over any 3 gaps (with all
/// limits), each in sorted and in reversed insertion order, with each gap optionally configured
/// twice with a second limit, in one or two batches.
fn enumerate_tables(full: bool) -> Vec<TableCase> {
    let mut out = vec![];
    let gaps: Vec<usize> = (0..=8).collect();
    let nl = LIMITS.len();
    // subsets of up to 3 gaps
    let mut subsets: Vec<Vec<usize>> = vec![vec![]];
    for a in 0..gaps.len() {
        subsets.push(vec![a]);
        for b in a + 1..gaps.len() {
            subsets.push(vec![a, b]);
            for c in b + 1..gaps.len() {
                subsets.push(vec![a, b, c]);
                if full {
                    for d in c + 1..gaps.len() {
                        subsets.push(vec![a, b, c, d]);
                    }
                }
            }
        }
    }
    for s in subsets {
        let k = s.len();
        let combos = nl.pow(k as u32);
        for code in 0..combos {
            let mut entries = vec![];
            let mut cc = code;
            for &g in &s {
                entries.push((gaps[g], LIMITS[cc % nl]));
                cc /= nl;
            }
            // sorted, reversed
            out.push(TableCase { batches: vec![entries.clone()] });
            if k >= 2 {
                let mut r = entries.clone();
                r.reverse();
                out.push(TableCase { batches: vec![r] });
            }
            // duplicates: re-configure the first gap with another limit, same batch / later batch
            if k >= 1 && (full || code % 3 == 0) {
                let (g0, l0) = entries[0];
                let other = LIMITS[(LIMITS.iter().position(|x| *x == l0).unwrap() + 1 + code % 3) % nl];
                let mut same = entries.clone();
                same.push((g0, other));
                out.push(TableCase { batches: vec![same] });
                let mut front = vec![(g0, other)];
                front.extend(entries.clone());
                out.push(TableCase { batches: vec![front] });
                out.push(TableCase { batches: vec![entries.clone(), vec![(g0, other)]] });
                out.push(TableCase { batches: vec![vec![(g0, other)], entries.clone()] });
            }
        }
    }
    out
}

pub fn big_tables() -> impl Strategy<Value = TableCase> {
    proptest::collection::vec(proptest::collection::vec((prop_oneof![3 => 0usize..12, 2 => 0usize..40], (0usize..LIMITS.len()).prop_map(|i| LIMITS[i])), 1..48), 1..4).prop_map(|batches| TableCase { batches })
}

pub fn run_tables(env: &Env, rep: &Report) {
    let tables = enumerate_tables(env.tier == Tier::Thorough);
    let w = workers();
    let chunk = (tables.len() + w - 1) / w;
    std::thread::scope(|s| {
        for part in tables.chunks(chunk.max(1)) {
            s.spawn(move || {
                run_enumerated(rep, "tables", part.iter().cloned(), check_table);
            });
        }
    });
    // long tables (accumulated over several calls, many gaps configured more than once)
    par_generated(rep, "big-tables", big_tables, env.tier.pick(40_000, 600_000), workers(), check_table);
    rep.set_exhaustive("tables", true);
    rep.note("tables", "every table over <=3 (thorough: <=4) of the gaps 0..8 with limits from {0.25,0.5,1,2,4}, sorted and reversed insertion, first gap optionally configured twice (same batch before/after, earlier/later batch); probed at gaps 0..10 x 32 distances (0, each limit +-2 ulp, 0.75*limit, 10)".into());
}

// ---------------------------------------------------------------------------------------------
// tracker level

use crate::gen::scenes::{history, history_opts, History};
use crate::props::trkmon::{run_monitored, Flags, MARGIN};
use proptest::prelude::*;

fn table() -> impl Strategy<Value = Vec<(usize, f32)>> {
    // limits small enough to cut pairs that still overlap (centre distance of gated pairs is well
    // below one radii sum), next to generous ones
    proptest::collection::vec((0usize..7, prop_oneof![3 => 0.01f32..0.15, 2 => 0.1f32..0.5, 1 => Just(1.0f32), 1 => Just(4.0f32)]), 1..4)
}

/// binding constraints: every continuation must respect the limit for its epoch gap
pub fn check_binding(h: &History) -> CaseResult {
    let st = crate::props::decide::run_decisions(h)?;
    Ok(CaseOk::new(st.constraint_removed_pairs > 0)
        .label(h.cfg.kind.name())
        .label_if(st.constraint_removed_pairs > 0, "constraint_removed_gated_pair")
        .label_if(st.band_calls > 0, "band_call")
        .label_if(st.positional_attachments + st.visual_attachments > 0, "has_continuations"))
}

/// constraints that no pair violates (limits 1e6) = no constraints, bit-equal
pub fn check_nonbinding(h: &History) -> CaseResult {
    let flags = Flags { c01: false, c03: false, c13: false, margins: true, group_batches: false };
    let mut free = h.clone();
    free.cfg.constraints = None;
    let mut loose = h.clone();
    loose.cfg.constraints = Some(h.cfg.constraints.clone().unwrap_or_default().into_iter().map(|(g, _)| (g, 1e6f32)).collect());
    let a = run_monitored(&free, flags)?;
    let b = run_monitored(&loose, flags)?;
    ensure!(a.records.len() == b.records.len(), "constraints-nonbinding-calls", "number of calls differs");
    let cut = (0..a.records.len()).find(|i| a.call_margins.get(*i).map(|x| x.1).unwrap_or(0.0) < MARGIN || b.call_margins.get(*i).map(|x| x.1).unwrap_or(0.0) < MARGIN).unwrap_or(a.records.len());
    let ra: Vec<Vec<crate::trk::Rec>> = a.records[..cut].iter().map(|x| x.1.clone()).collect();
    let rb: Vec<Vec<crate::trk::Rec>> = b.records[..cut].iter().map(|x| x.1.clone()).collect();
    crate::props::c04::same_up_to_ids(&ra, &rb, "unconstrained vs non-binding constraints").map_err(|f| Fail::new(format!("constraints-nonbinding-{}", f.signature), f.msg))?;
    let conts = ra.iter().flatten().filter(|r| r.length > 1).count();
    Ok(CaseOk::new(conts > 0 && cut > 2).label(h.cfg.kind.name()).label_if(cut < a.records.len(), "cut_at_fragile_call"))
}

pub fn run_trackers(env: &Env, rep: &Report) {
    use crate::props::c01::{iso_check, KINDS};
    let pool = IsoPool::new(&env.prop, "binding", std::time::Duration::from_secs(120));
    let n = env.tier.pick(4_000, 30_000);
    for kind in KINDS {
        let strat = move || (history(kind, false, 40), table()).prop_map(|(mut h, t)| {
            h.cfg.constraints = Some(t);
            h
        });
        par_generated(rep, "binding", strat, n, workers(), iso_check(&pool, rep));
    }
    let pool2 = IsoPool::new(&env.prop, "nonbinding", std::time::Duration::from_secs(120));
    let n = env.tier.pick(2_500, 20_000);
    for kind in KINDS {
        let strat = move || (history_opts(kind, false, 40, false), table()).prop_map(|(mut h, t)| {
            h.cfg.constraints = Some(t);
            h
        });
        par_generated(rep, "nonbinding", strat, n, workers(), iso_check(&pool2, rep));
    }
}

pub fn run(env: &Env, rep: &Report) {
    stall_watchdog(400);
    rep.set_rule("constraint tables enumerated exhaustively over <=3 configured gaps in 0..8 x limit grid, duplicates and insertion orders; every (gap 0..10, distance probe) pair compared with the reference lookup 'limit of the smallest configured gap >= d, first insertion wins'. Tracker level: histories with fast-moving and re-appearing objects under random constraint tables for all four trackers. Non-trivial: a probe gap strictly between two configured gaps (tables); a history where the constraints remove a pair that the positional gate would have accepted (binding); a compared prefix with continuations (nonbinding); distinct = distinct serialized case");
    run_tables(env, rep);
    rep.assume("tracker level: 'binding' re-derives admissibility of every (detection, track) pair in f64 (epoch gap, centre distance / sqrt((r1+r2)^2 + EPS) <= limit of the smallest configured gap >= d) and requires every continuation to be an admitted, gated pair and the positional continuations to be optimal among admitted pairs; 'nonbinding' compares the run without constraints with the run under the same gaps and limits 1e6, bit-equal up to ids, cut at calls with a decision margin below 1e-4");
    run_trackers(env, rep);
}

pub fn replay(sub: &str, case: Value) -> Option<CaseResult> {
    match sub {
        "tables" | "big-tables" => Some(replay_case(case, check_table, sub)),
        "binding" => Some(replay_case(case, check_binding, sub)),
        "nonbinding" => Some(replay_case(case, check_nonbinding, sub)),
        _ => None,
    }
}
