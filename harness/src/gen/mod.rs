//! Shared proptest strategies.
pub mod boxes;
