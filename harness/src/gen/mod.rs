//! Shared proptest strategies.
pub mod boxes;
pub mod scenes;
