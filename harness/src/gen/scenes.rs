//! Scene generator: a table of objects with explicit trajectories and a list of operations;
//! a detection refers to (object, explicit time, jitter, ...), so removing operations while
//! shrinking leaves the remaining boxes unchanged.

use crate::gen::boxes::UB;
use crate::oracle::geom;
use crate::trk::{Cfg, Det, Kind, Pos, VisCfg};
use proptest::prelude::*;
use serde::{Deserialize, Serialize};

#[derive(Clone, Debug, Serialize, Deserialize)]
pub struct Obj {
    pub x0: f32,
    pub y0: f32,
    pub vx: f32,
    pub vy: f32,
    pub ax: f32,
    pub ay: f32,
    pub w: f32,
    pub h: f32,
    /// relative size change per time step
    pub growth: f32,
    pub angle: Option<f32>,
    pub omega: f32,
    /// appearance prototype (objects sharing it look alike)
    pub proto: u8,
}

impl Obj {
    pub fn box_at(&self, t: f32) -> UB {
        let s = (1.0 + self.growth * t).clamp(0.3, 3.0);
        let (w, h) = ((self.w * s).max(2.0), (self.h * s).max(2.0));
        UB::new(
            self.x0 + self.vx * t + 0.5 * self.ax * t * t,
            self.y0 + self.vy * t + 0.5 * self.ay * t * t,
            self.angle.map(|a| a + self.omega * t),
            w / h,
            h,
        )
    }
}

#[derive(Clone, Debug, Serialize, Deserialize)]
pub struct DetSpec {
    /// index into the object table; >= len means a false positive placed by (jx, jy)
    pub obj: usize,
    pub t: u16,
    /// jitter in units of the box size
    pub jx: f32,
    pub jy: f32,
    pub js: f32,
    pub conf: f32,
    pub has_feat: bool,
    pub feat_var: u8,
    pub quality: Option<f32>,
    /// fragmentary detection: the box covers only part of the object's width
    /// (width factor, shift of the centre in object widths); (1, 0) = the whole object
    #[serde(default = "whole")]
    pub part: (f32, f32),
}

fn whole() -> (f32, f32) {
    (1.0, 0.0)
}

#[derive(Clone, Debug, Serialize, Deserialize)]
pub enum Op {
    Predict { scene: u64, dets: Vec<DetSpec> },
    Skip { scene: u64, n: usize },
    Wasted,
    Idle { scene: u64 },
    ClearWasted,
    SetAutoWaste(usize),
    Epoch { scene: u64 },
    Stats,
}

#[derive(Clone, Debug, Serialize, Deserialize)]
pub struct History {
    pub cfg: Cfg,
    pub objs: Vec<Obj>,
    pub feat_dim: usize,
    pub ops: Vec<Op>,
    /// unit of the coordinates: 1 = pixels (objects of 20..40), 0.002 = frame-relative coordinates
    /// (objects of 0.04..0.08), 30 = a very large frame; tracking is invariant under it
    #[serde(default = "unit_scale")]
    pub scale: f32,
}

fn unit_scale() -> f32 {
    1.0
}

/// the last two scene ids differ only above bit 31
pub const SCENES: [u64; 3] = [0, 7, 7 + (1u64 << 32)];

/// deterministic appearance prototype / variation
pub fn feature(proto: u8, var: u8, dim: usize) -> Vec<f32> {
    (0..dim)
        .map(|i| {
            let base = ((proto as f32 * 2.399 + i as f32 * 1.7).sin() * 1.0) + if i == (proto as usize % dim) { 1.5 } else { 0.0 };
            let v = ((var as f32 * 0.73 + i as f32 * 2.1 + proto as f32).cos()) * 0.06;
            base + v
        })
        .collect()
}

impl History {
    /// the detection list of a predict call; `custom_base` makes custom ids unique per call
    pub fn dets(&self, specs: &[DetSpec], custom_base: i64) -> Vec<Det> {
        let mut out: Vec<Det> = vec![];
        for (k, s) in specs.iter().enumerate() {
            let b = if !self.objs.is_empty() && s.obj < self.objs.len() {
                let mut b = self.objs[s.obj].box_at(s.t as f32);
                let (w, h) = (b.width(), b.height);
                b.xc += s.jx * w;
                b.yc += s.jy * h;
                let f = 1.0 + s.js;
                b.height = (h * f).max(2.0);
                if s.part.0 != 1.0 {
                    // a fragment at one end of the (possibly rotated) object
                    let a = b.angle.unwrap_or(0.0);
                    b.xc += s.part.1 * w * a.cos();
                    b.yc += s.part.1 * w * a.sin();
                    b.aspect = (w * s.part.0).max(2.0) / b.height;
                }
                b
            } else {
                // false positive somewhere in the image region
                UB::new(250.0 + s.jx * 2000.0, 250.0 + s.jy * 2000.0, None, 0.8, 30.0 + s.js.abs() * 100.0)
            };
            let mut b = b;
            if self.scale != 1.0 {
                b.xc *= self.scale;
                b.yc *= self.scale;
                b.height *= self.scale;
            }
            // a detector that reports axis-aligned boxes only, now and then, for an oriented object
            if s.feat_var % 16 == 7 && s.part.0 == 1.0 {
                b.angle = None;
            }
            b.conf = s.conf.clamp(0.0, 1.0);
            let proto = if s.obj < self.objs.len() { self.objs[s.obj].proto } else { 200 + (s.feat_var % 8) };
            out.push(Det {
                b,
                // one detection in five is submitted without a custom object id (after others that
                // had one): the record has to echo the absence as well
                // (and one in thirteen carries an id a caller may well use but an implementation
                // might reserve: -1, 0, the extremes)
                custom: if (s.t as u32 + 7 * k as u32 + s.feat_var as u32) % 5 == 0 {
                    None
                } else if (s.t as u32 + 3 * k as u32 + s.feat_var as u32) % 13 == 1 {
                    Some([-1i64, 0, i64::MIN, i64::MAX, -2][(s.feat_var % 5) as usize])
                } else {
                    Some(custom_base + k as i64)
                },
                feat: if self.cfg.kind.is_visual() && s.has_feat { Some(feature(proto, s.feat_var, self.feat_dim.max(1))) } else { None },
                q: if self.cfg.kind.is_visual() { s.quality } else { None },
            });
        }
        // The exclusively-owned-area computation (used when an own-area threshold is set) is
        // known to panic / hang on near-degenerate box sets (C15, D9): such sets are outside this
        // generator's domain and are thinned deterministically.
        if self.cfg.kind.is_visual() && self.cfg.vis.own_use + self.cfg.vis.own_collect > 0.0 {
            let mut kept: Vec<Det> = vec![];
            for d in out {
                let mut rb: Vec<geom::RBox> = kept.iter().map(|x| x.b.rbox()).collect();
                rb.push(d.b.rbox());
                if !crate::props::c15::degenerate(&rb) {
                    kept.push(d);
                }
            }
            return kept;
        }
        out
    }
}

fn obj() -> impl Strategy<Value = Obj> {
    (
        (100.0f32..400.0, 100.0f32..400.0),
        (-12.0f32..12.0, -12.0f32..12.0),
        (-0.4f32..0.4, -0.4f32..0.4),
        prop_oneof![5 => (20.0f32..70.0, 20.0f32..70.0), 1 => (90.0f32..160.0, 12.0f32..25.0)],
        -0.01f32..0.01,
        prop_oneof![3 => Just(None), 1 => (-3.2f32..3.2).prop_map(Some), 1 => (6.3f32..20.0).prop_map(Some)],
        -0.05f32..0.05,
        0u8..4,
    )
        .prop_map(|((x0, y0), (vx, vy), (ax, ay), (w, h), growth, angle, omega, proto)| Obj { x0, y0, vx, vy, ax, ay, w, h, growth, angle, omega, proto })
}

/// object tables: independent objects, or a crowd around one point (approach / cross / overlap)
fn objs() -> impl Strategy<Value = Vec<Obj>> {
    prop_oneof![
        2 => proptest::collection::vec(obj(), 1..6),
        2 => (obj(), proptest::collection::vec((obj(), -1.2f32..1.2, -1.2f32..1.2), 1..5)).prop_map(|(a, others)| {
            // others start within ~1 box of `a` and move relative to it: overlaps, crossings
            let mut v = vec![a.clone()];
            for (mut o, dx, dy) in others {
                o.x0 = a.x0 + dx * a.w;
                o.y0 = a.y0 + dy * a.h;
                o.vx = a.vx + o.vx * 0.3;
                o.vy = a.vy + o.vy * 0.3;
                o.w = a.w * (0.7 + 0.6 * (o.w - 20.0) / 50.0);
                o.h = a.h * (0.7 + 0.6 * (o.h - 20.0) / 50.0);
                v.push(o);
            }
            v
        }),
        1 => (obj(), obj()).prop_map(|(a, mut b)| {
            // head-on crossing
            b.x0 = a.x0 + 20.0 * a.vx;
            b.y0 = a.y0 + 20.0 * a.vy;
            b.vx = -a.vx;
            b.vy = -a.vy;
            b.ax = 0.0;
            b.ay = 0.0;
            vec![a, b]
        }),
    ]
}

#[derive(Clone, Debug)]
struct RawDet {
    obj: usize,
    present: bool,
    jx: f32,
    jy: f32,
    js: f32,
    conf: f32,
    has_feat: bool,
    feat_var: u8,
    quality: Option<f32>,
    dup: bool,
    false_pos: bool,
    part: (f32, f32),
}

fn raw_det() -> impl Strategy<Value = RawDet> {
    (
        0usize..6,
        proptest::bool::weighted(0.85),
        // mostly measurement noise; now and then a jump of up to two box sizes in any direction
        // (pairs around the reach of the bounding circles, the chi-square gate and the IoU gate)
        prop_oneof![14 => (-0.06f32..0.06, -0.06f32..0.06, -0.04f32..0.04), 1 => (-2.0f32..2.0, -2.0f32..2.0, -0.04f32..0.04), 1 => (-0.9f32..0.9, -0.9f32..0.9, -0.04f32..0.04)],
        prop_oneof![3 => Just(1.0f32), 2 => 0.3f32..1.0, 1 => 0.0f32..0.1],
        proptest::bool::weighted(0.85),
        0u8..16,
        prop_oneof![1 => Just(None), 4 => (0.0f32..1.0).prop_map(Some)],
        proptest::bool::weighted(0.08),
        proptest::bool::weighted(0.08),
        prop_oneof![12 => Just((1.0f32, 0.0f32)), 1 => (0.2f32..0.5, -0.4f32..0.4)],
    )
        .prop_map(|(obj, present, (jx, jy, js), conf, has_feat, feat_var, quality, dup, false_pos, part)| RawDet { obj, present, jx, jy, js, conf, has_feat, feat_var, quality, dup, false_pos, part })
}

#[derive(Clone, Debug)]
enum RawOp {
    Predict(usize, Vec<RawDet>, bool),
    Skip(usize, usize),
    Wasted,
    Idle(usize),
    ClearWasted,
    SetAutoWaste(usize),
    Epoch(usize),
    Stats,
}

fn raw_op(lifecycle: bool) -> impl Strategy<Value = RawOp> {
    let p = (0usize..3, proptest::collection::vec(raw_det(), 0..8), proptest::bool::weighted(0.07)).prop_map(|(s, d, empty)| RawOp::Predict(s, d, empty));
    if lifecycle {
        prop_oneof![
            12 => p,
            // mostly a few epochs; rarely a jump by (a multiple of) 2^32 epochs
            1 => (0usize..3, prop_oneof![24 => 1usize..4, 1 => prop_oneof![Just(1usize << 32), Just((1usize << 32) + 1), Just(3usize << 32), Just((1usize << 32) - 1)]]).prop_map(|(s, n)| RawOp::Skip(s, n)),
            2 => Just(RawOp::Wasted),
            2 => (0usize..3).prop_map(RawOp::Idle),
            1 => Just(RawOp::ClearWasted),
            1 => prop_oneof![Just(0usize), Just(1), Just(2), Just(100)].prop_map(RawOp::SetAutoWaste),
            1 => (0usize..3).prop_map(RawOp::Epoch),
            1 => Just(RawOp::Stats),
        ]
        .boxed()
    } else {
        prop_oneof![
            20 => p,
            1 => Just(RawOp::Wasted),
            1 => (0usize..3).prop_map(RawOp::Idle),
        ]
        .boxed()
    }
}

pub fn vis_cfg() -> impl Strategy<Value = VisCfg> {
    (
        any::<bool>(),
        (0.15f32..1.2, prop_oneof![1 => 0.1f32..0.6, 2 => 0.6f32..0.995]),
        1usize..=3,
        1usize..=6,
        0usize..6,
        prop_oneof![2 => Just(0.0f32), 1 => 0.2f32..0.8],
        prop_oneof![2 => Just(0.0f32), 1 => 0.2f32..0.8],
        prop_oneof![2 => Just(0.0f32), 1 => 400.0f32..2500.0],
        // own-area thresholds: none, both, or only one of the two
        prop_oneof![4 => Just((0.0f32, 0.0f32)), 1 => (0.2f32..0.8, 0.2f32..0.8), 1 => (0.2f32..0.8).prop_map(|u| (u, 0.0f32)), 1 => (0.2f32..0.8).prop_map(|c| (0.0f32, c))],
    )
        .prop_map(|(cosine, (te, tc), min_votes, max_obs, mtl, q_use, q_collect, min_area, (own_use, own_collect))| VisCfg {
            cosine,
            threshold: if cosine { tc } else { te },
            min_votes,
            min_track_len: 1 + mtl % max_obs,
            max_obs,
            q_use,
            q_collect,
            min_area,
            own_use,
            own_collect,
        })
}

pub fn cfg(kind: Kind) -> impl Strategy<Value = Cfg> {
    (
        1usize..=4,
        1usize..=3,
        1usize..=10,
        0usize..=5,
        prop_oneof![2 => (0.05f32..0.9).prop_map(Pos::IoU), 1 => Just(Pos::IoU(0.3)), 2 => Just(Pos::Maha)],
        prop_oneof![2 => Just(0.05f32), 1 => 0.01f32..1.0],
        // Kalman weights: the defaults, around them, and heavy position weights (the chi-square
        // gate is then wider than the reach of the bounding circles, which decides alone)
        prop_oneof![4 => Just((0.05f32, 0.00625f32)), 2 => (0.02f32..0.1, 0.003f32..0.02), 1 => (0.1f32..0.6, 0.003f32..0.05)],
        vis_cfg(),
        // spatio-temporal constraints: mostly none, sometimes a (possibly binding) table
        prop_oneof![4 => Just(None), 1 => proptest::collection::vec((0usize..6, prop_oneof![Just(0.1f32), Just(0.5), Just(2.0), 0.05f32..3.0]), 1..4).prop_map(Some)],
    )
        .prop_map(move |(shards, voting_shards, history, max_idle, pos, min_conf, (wp, wv), vis, constraints)| Cfg { kind, shards, voting_shards, history, max_idle, pos, min_conf, constraints, wp, wv, vis })
}

/// Histories for one tracker kind. `lifecycle` adds skip / wasted / idle / clear / auto-waste
/// operations at a higher rate; `max_ops` bounds the length.
pub fn history(kind: Kind, lifecycle: bool, max_ops: usize) -> impl Strategy<Value = History> {
    history_opts(kind, lifecycle, max_ops, true)
}

/// `dups = false`: no exact duplicate detections and a distinct appearance variation for every
/// detection (tie-free by construction, for differential checks).
pub fn history_opts(kind: Kind, lifecycle: bool, max_ops: usize, dups: bool) -> impl Strategy<Value = History> {
    (cfg(kind), objs(), 2usize..=16, 1usize..=3, proptest::collection::vec(raw_op(lifecycle), 1..max_ops), (proptest::bool::weighted(0.07), prop_oneof![12 => Just(1.0f32), 1 => Just(0.002f32), 1 => Just(30.0f32)])).prop_map(move |(mut cfg, objs, feat_dim, nscenes, raw, (near_wrap, scale))| {
        // the minimal-area threshold is an absolute area: it moves with the unit
        cfg.vis.min_area *= scale * scale;
        let mut uniq: u32 = 0;
        let mut clock = [0u16; 3];
        let mut ops = vec![];
        if near_wrap {
            // the history starts a few epochs below 2^32 on every scene and crosses it while tracks are alive
            for s in 0..nscenes {
                ops.push(Op::Skip { scene: SCENES[s], n: (1usize << 32) - 2 - 3 * s - raw.len() % 5 });
            }
        }
        for r in raw {
            ops.push(match r {
                RawOp::Predict(s, dets, empty) => {
                    let s = s % nscenes;
                    clock[s] += 1;
                    let t = clock[s];
                    let mut specs: Vec<DetSpec> = vec![];
                    if !empty {
                        for d in dets {
                            if !d.present {
                                continue;
                            }
                            let obj = if d.false_pos { usize::MAX / 2 } else { d.obj % objs.len().max(1) };
                            uniq = uniq.wrapping_add(1);
                            let feat_var = if dups { d.feat_var } else { (uniq % 251) as u8 };
                            let spec = DetSpec { obj, t, jx: d.jx, jy: d.jy, js: d.js, conf: d.conf, has_feat: d.has_feat, feat_var, quality: d.quality, part: d.part };
                            if d.dup && dups {
                                specs.push(spec.clone());
                            }
                            // without duplicates an object is detected at most once per call
                            if !dups && specs.iter().any(|x: &DetSpec| x.obj == obj && obj < usize::MAX / 2) {
                                continue;
                            }
                            specs.push(spec);
                        }
                    }
                    Op::Predict { scene: SCENES[s], dets: specs }
                }
                RawOp::Skip(s, n) => Op::Skip { scene: SCENES[s % nscenes], n },
                RawOp::Wasted => Op::Wasted,
                RawOp::Idle(s) => Op::Idle { scene: SCENES[s % nscenes] },
                RawOp::ClearWasted => Op::ClearWasted,
                RawOp::SetAutoWaste(p) => Op::SetAutoWaste(p),
                RawOp::Epoch(s) => Op::Epoch { scene: SCENES[s % nscenes] },
                RawOp::Stats => Op::Stats,
            });
        }
        History { cfg, objs, feat_dim, ops, scale }
    })
}
