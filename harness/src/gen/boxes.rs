//! Box case type and strategies (axis-aligned and rotated boxes, constructed configurations).

use crate::oracle::geom::RBox;
use proptest::prelude::*;
use serde::{Deserialize, Serialize};
use similari::utils::bbox::Universal2DBox;

/// A box in the library's universal parametrisation, f32 exactly as handed to the library.
#[derive(Clone, Copy, Debug, Serialize, Deserialize, PartialEq)]
pub struct UB {
    pub xc: f32,
    pub yc: f32,
    pub angle: Option<f32>,
    pub aspect: f32,
    pub height: f32,
    #[serde(default = "one")]
    pub conf: f32,
}

fn one() -> f32 {
    1.0
}

impl UB {
    pub fn new(xc: f32, yc: f32, angle: Option<f32>, aspect: f32, height: f32) -> Self {
        UB { xc, yc, angle, aspect, height, conf: 1.0 }
    }
    pub fn ltwh(l: f32, t: f32, w: f32, h: f32) -> Self {
        UB { xc: l + w / 2.0, yc: t + h / 2.0, angle: None, aspect: w / h, height: h, conf: 1.0 }
    }
    pub fn lib(&self) -> Universal2DBox {
        Universal2DBox::new_with_confidence(self.xc, self.yc, self.angle, self.aspect, self.height, self.conf)
    }
    pub fn rbox(&self) -> RBox {
        RBox::from_xyaah(self.xc, self.yc, self.angle, self.aspect, self.height)
    }
    pub fn from_lib(b: &Universal2DBox) -> Self {
        UB { xc: b.xc, yc: b.yc, angle: b.angle, aspect: b.aspect, height: b.height, conf: b.confidence }
    }
    pub fn width(&self) -> f32 {
        self.aspect * self.height
    }
    pub fn valid(&self) -> bool {
        self.aspect > 0.0 && self.height > 0.0 && self.aspect.is_finite() && self.height.is_finite()
            && self.xc.is_finite() && self.yc.is_finite() && self.angle.map(|a| a.is_finite()).unwrap_or(true)
    }
}

pub fn log_uniform(lo: f32, hi: f32) -> impl Strategy<Value = f32> + Clone {
    (lo.ln()..hi.ln()).prop_map(|x: f32| x.exp())
}

/// Angles: None, 0, multiples of pi/2 (as f32), random in [-pi, pi], |a| > 2 pi.
pub fn angle_any() -> impl Strategy<Value = Option<f32>> + Clone {
    prop_oneof![
        2 => Just(None),
        1 => Just(Some(0.0f32)),
        2 => (-8i32..=8).prop_map(|k| Some((k as f64 * std::f64::consts::FRAC_PI_2) as f32)),
        5 => (-std::f32::consts::PI..std::f32::consts::PI).prop_map(Some),
        1 => prop_oneof![(6.3f32..40.0), (-40.0f32..-6.3)].prop_map(Some),
        1 => (-0.01f32..0.01).prop_map(Some),
        // many turns (an angle accumulated over time), tiny angles below the equality EPS
        1 => prop_oneof![(40.0f32..2e4), (-2e4f32..-40.0)].prop_map(Some),
        1 => prop_oneof![(1e-7f32..1e-5), (-1e-5f32..-1e-7)].prop_map(Some),
    ]
}

/// General box: height 0.1..1e3 (log-uniform), width 0.1..1e3, centre up to `cmax`.
pub fn ubox(cmax: f32) -> impl Strategy<Value = UB> + Clone {
    (
        -cmax..cmax,
        -cmax..cmax,
        angle_any(),
        log_uniform(0.1, 1e3),
        log_uniform(0.1, 1e3),
    )
        .prop_map(|(xc, yc, angle, w, h)| UB::new(xc, yc, angle, w / h, h))
}

/// Coordinate magnitude class: mostly moderate, sometimes up to 1e4.
pub fn cmax_class() -> impl Strategy<Value = f32> + Clone {
    prop_oneof![3 => Just(100.0f32), 2 => Just(2000.0f32), 2 => Just(1e4f32)]
}

#[derive(Clone, Copy, Debug, Serialize, Deserialize, PartialEq)]
pub enum PairKind {
    General,
    Touching,
    Nested,
    Identical,
    EdgeSharing,
    Concentric,
    Far,
}

#[derive(Clone, Debug, Serialize, Deserialize)]
pub struct BoxPair {
    pub kind: PairKind,
    pub a: UB,
    pub b: UB,
}

fn rot(x: f64, y: f64, ang: f64) -> (f64, f64) {
    let (s, c) = ang.sin_cos();
    (x * c - y * s, x * s + y * c)
}

/// Pairs of boxes in constructed configurations.
pub fn box_pair() -> impl Strategy<Value = BoxPair> + Clone {
    let base = cmax_class().prop_flat_map(ubox);
    let general = (base.clone(), angle_any(), log_uniform(0.1, 1e3), log_uniform(0.1, 1e3), -1.3f64..1.3, -1.3f64..1.3, 0u8..4)
        .prop_map(|(a, ang, w, h, fx, fy, scale_mode)| {
            // b of comparable size in most cases so that overlaps are substantial
            let (w, h) = match scale_mode {
                0 => (w, h),
                _ => {
                    let k = (w / h).clamp(0.2, 5.0);
                    let hh = a.height * (0.3 + 1.4 * ((h.ln() - 0.1f32.ln()) / (1e3f32.ln() - 0.1f32.ln())));
                    (k * hh, hh)
                }
            };
            let ra = a.rbox().radius();
            let rb = 0.5 * ((w as f64).powi(2) + (h as f64).powi(2)).sqrt();
            let reach = ra + rb;
            let b = UB::new(
                (a.xc as f64 + fx * reach) as f32,
                (a.yc as f64 + fy * reach) as f32,
                ang,
                w / h,
                h,
            );
            BoxPair { kind: PairKind::General, a, b }
        });
    let touching = (base.clone(), log_uniform(0.1, 1e3), log_uniform(0.1, 1e3), 0u8..4, -1.0f64..1.0,
        prop_oneof![Just(0.0f64), Just(1e-6), Just(-1e-6), Just(1e-3), Just(-1e-3), Just(1e-1), Just(-1e-1)], any::<bool>())
        .prop_map(|(a, w, h, quarter, slide, gap_rel, corner)| {
            // b has a's orientation (+ k * pi/2); placed along a's width axis with a signed gap
            let ang_a = a.angle.unwrap_or(0.0) as f64;
            let ang_b = ang_a + quarter as f64 * std::f64::consts::FRAC_PI_2;
            let (bw, bh) = if quarter % 2 == 0 { (w as f64, h as f64) } else { (h as f64, w as f64) };
            // extent of b along a's axes: (bw, bh) after the quarter turn is swapped back
            let aw = a.width() as f64;
            let ah = a.height as f64;
            let scale = aw.min(bw);
            let dx = aw / 2.0 + bw / 2.0 + gap_rel * scale;
            let dy = if corner { ah / 2.0 + bh / 2.0 + gap_rel * scale } else { slide * (ah + bh) / 2.0 };
            let (ox, oy) = rot(dx, dy, ang_a);
            let b = UB::new(
                (a.xc as f64 + ox) as f32,
                (a.yc as f64 + oy) as f32,
                if a.angle.is_none() && quarter == 0 { None } else { Some(ang_b as f32) },
                w / h,
                h,
            );
            BoxPair { kind: PairKind::Touching, a, b }
        });
    let nested = (base.clone(), angle_any(), 0.05f32..0.95, 0.05f32..0.95, -0.4f64..0.4, -0.4f64..0.4).prop_map(
        |(a, ang, fw, fh, ox, oy)| {
            // stay inside the stated size domain (>= 0.1) even when `a` is small
            let w = (a.width() * fw).max(0.1);
            let h = (a.height * fh).max(0.1);
            let (dx, dy) = rot(ox * (a.width() - w) as f64 * 0.5, oy * (a.height - h) as f64 * 0.5, a.angle.unwrap_or(0.0) as f64);
            let b = UB::new((a.xc as f64 + dx) as f32, (a.yc as f64 + dy) as f32, ang, w / h, h);
            BoxPair { kind: PairKind::Nested, a, b }
        },
    );
    let identical = (base.clone(), 0u8..3).prop_map(|(a, m)| {
        let mut b = a;
        match m {
            1 => {
                // same rectangle, other representation of the angle
                b.angle = match a.angle {
                    None => Some(0.0),
                    Some(x) if x == 0.0 => None,
                    other => other,
                };
            }
            _ => {}
        }
        BoxPair { kind: PairKind::Identical, a, b }
    });
    let edge_sharing = (base.clone(), prop_oneof![3 => -1.5f64..1.5, 1 => Just(0.0f64)], any::<bool>(), prop_oneof![1 => Just(1.0f32), 1 => 0.3f32..3.0]).prop_map(|(a, t, along_w, stretch)| {
        let ang = a.angle.unwrap_or(0.0) as f64;
        let (dx, dy) = if along_w { (t * a.width() as f64, 0.0) } else { (0.0, t * a.height as f64) };
        let (ox, oy) = rot(dx, dy, ang);
        let mut b = a;
        b.xc = (a.xc as f64 + ox) as f32;
        b.yc = (a.yc as f64 + oy) as f32;
        // a lane: b keeps the orientation and the extent across the direction of the shift (the
        // two edges along it stay collinear with a's) but is longer or shorter along it
        if stretch != 1.0 {
            if along_w {
                b.aspect = (a.aspect * stretch).max(0.1 / a.height);
            } else {
                let w = a.width();
                b.height = (a.height * stretch).max(0.1);
                b.aspect = w / b.height;
            }
        }
        BoxPair { kind: PairKind::EdgeSharing, a, b }
    });
    let concentric = (base.clone(), angle_any(), 0.3f32..3.0, 0.3f32..3.0).prop_map(|(a, ang, fw, fh)| {
        let w = (a.width() * fw).max(0.1);
        let h = (a.height * fh).max(0.1);
        let b = UB::new(a.xc, a.yc, ang, w / h, h);
        BoxPair { kind: PairKind::Concentric, a, b }
    });
    let far = (base.clone(), base, 0.9f64..1.5, 0.0f64..6.3).prop_map(|(a, mut b, f, dir)| {
        // centre distance around the sum of the bounding radii: exercises the pre-filter
        let reach = (a.rbox().radius() + b.rbox().radius()) * f;
        b.xc = (a.xc as f64 + reach * dir.cos()) as f32;
        b.yc = (a.yc as f64 + reach * dir.sin()) as f32;
        BoxPair { kind: PairKind::Far, a, b }
    });
    prop_oneof![
        6 => general,
        3 => touching,
        2 => nested,
        1 => identical,
        2 => edge_sharing,
        2 => concentric,
        2 => far,
    ]
}
