pub mod core;
pub mod oracle;
pub mod gen;
pub mod props;
pub mod store_kit;
pub mod sched;
pub mod trk;
pub mod fuzz;
