//! Runner, evidence, replay and known-findings plumbing shared by all property checks.

use proptest::strategy::{Strategy, ValueTree};
use proptest::test_runner::{Config, RngAlgorithm, TestCaseError, TestError, TestRng, TestRunner};
use serde::de::DeserializeOwned;
use serde::Serialize;
use serde_json::{json, Value};
use std::cell::RefCell;
use std::collections::{BTreeMap, HashSet};
use std::panic::{catch_unwind, AssertUnwindSafe};
use std::path::PathBuf;
use std::sync::atomic::{AtomicBool, AtomicU64, Ordering};
use std::sync::Mutex;
use std::time::Instant;

#[derive(Clone, Copy, PartialEq, Eq, Debug)]
pub enum Tier {
    Quick,
    Thorough,
}

impl Tier {
    pub fn name(&self) -> &'static str {
        match self {
            Tier::Quick => "quick",
            Tier::Thorough => "thorough",
        }
    }
    /// picks the quick or the thorough amount of work
    pub fn pick<T>(&self, quick: T, thorough: T) -> T {
        match self {
            Tier::Quick => quick,
            Tier::Thorough => thorough,
        }
    }
}

pub struct Env {
    pub prop: String,
    pub tier: Tier,
    pub seed: u64,
    pub verif_dir: PathBuf,
    pub worker: Option<(usize, usize)>,
}

/// Result of one evaluated case.
#[derive(Debug, Clone, Default)]
pub struct CaseOk {
    pub nontrivial: bool,
    pub labels: Vec<&'static str>,
}

impl CaseOk {
    pub fn trivial() -> Self {
        Self::default()
    }
    pub fn new(nontrivial: bool) -> Self {
        Self {
            nontrivial,
            labels: vec![],
        }
    }
    pub fn label(mut self, l: &'static str) -> Self {
        self.labels.push(l);
        self
    }
    pub fn label_if(mut self, c: bool, l: &'static str) -> Self {
        if c {
            self.labels.push(l);
        }
        self
    }
}

#[derive(Debug, Clone)]
pub struct Fail {
    /// stable identification of the failure kind (used for known findings)
    pub signature: String,
    pub msg: String,
}

impl Fail {
    pub fn new(signature: impl Into<String>, msg: impl Into<String>) -> Self {
        Self {
            signature: signature.into(),
            msg: msg.into(),
        }
    }
}

pub type CaseResult = Result<CaseOk, Fail>;

#[macro_export]
macro_rules! ensure {
    ($cond:expr, $sig:expr, $($arg:tt)*) => {
        if !($cond) {
            return Err($crate::core::Fail::new($sig, format!($($arg)*)));
        }
    };
}

// ---------------------------------------------------------------------------------------------
// panic capture

thread_local! {
    static LAST_PANIC: RefCell<Option<(String, String)>> = const { RefCell::new(None) };
    static QUIET_THREAD: RefCell<bool> = const { RefCell::new(false) };
}

static FOREIGN_PANIC: Mutex<Option<(String, String)>> = Mutex::new(None);
/// message -> location of the most recent panic with that message, on any thread. Lets `guard`
/// attribute a panic that was raised on another thread (rayon worker) and re-raised on the
/// caller with `resume_unwind`, which carries the payload but not the location.
static MSG_LOC: Mutex<Option<std::collections::HashMap<String, String>>> = Mutex::new(None);
static HOOK_INSTALLED: AtomicBool = AtomicBool::new(false);

/// Installs a panic hook that records (location, message) per thread; panics on threads that
/// are not inside `guard` are additionally recorded globally (a dead worker thread of the code
/// under test usually shows up as a hang of its caller).
pub fn install_panic_hook() {
    if HOOK_INSTALLED.swap(true, Ordering::SeqCst) {
        return;
    }
    let verbose = std::env::var("SV_PANIC_VERBOSE").is_ok();
    std::panic::set_hook(Box::new(move |info| {
        let loc = info
            .location()
            .map(|l| {
                let f = l.file();
                // keep the path relative to the crate (stable across checkouts)
                let f = f.rsplit_once("/src/").map(|(_, r)| r).unwrap_or(f);
                format!("{}:{}", f, l.line())
            })
            .unwrap_or_else(|| "?".into());
        let msg = if let Some(s) = info.payload().downcast_ref::<&str>() {
            s.to_string()
        } else if let Some(s) = info.payload().downcast_ref::<String>() {
            s.clone()
        } else {
            "<non-string panic>".into()
        };
        {
            let mut m = MSG_LOC.lock().unwrap_or_else(|e| e.into_inner());
            let m = m.get_or_insert_with(Default::default);
            if m.len() > 20_000 {
                m.clear();
            }
            m.insert(msg.clone(), loc.clone());
        }
        let guarded = QUIET_THREAD.with(|q| *q.borrow());
        LAST_PANIC.with(|p| *p.borrow_mut() = Some((loc.clone(), msg.clone())));
        if !guarded {
            let mut g = FOREIGN_PANIC.lock().unwrap_or_else(|e| e.into_inner());
            if g.is_none() {
                *g = Some((loc.clone(), msg.clone()));
            }
        }
        if verbose || !guarded {
            if verbose || std::env::var("SV_FOREIGN_PANIC_QUIET").is_err() {
                eprintln!(
                    "[sv] panic on thread {:?} at {}: {}",
                    std::thread::current().name(),
                    loc,
                    msg
                );
            }
        }
    }));
}

pub fn take_foreign_panic() -> Option<(String, String)> {
    FOREIGN_PANIC
        .lock()
        .unwrap_or_else(|e| e.into_inner())
        .take()
}

pub fn peek_foreign_panic() -> Option<(String, String)> {
    FOREIGN_PANIC
        .lock()
        .unwrap_or_else(|e| e.into_inner())
        .clone()
}

/// Runs `f`, converting a panic on this thread into `Err((location, message))`.
pub fn guard<T>(f: impl FnOnce() -> T) -> Result<T, (String, String)> {
    let prev = QUIET_THREAD.with(|q| std::mem::replace(&mut *q.borrow_mut(), true));
    LAST_PANIC.with(|p| *p.borrow_mut() = None);
    let r = catch_unwind(AssertUnwindSafe(f));
    QUIET_THREAD.with(|q| *q.borrow_mut() = prev);
    match r {
        Ok(v) => Ok(v),
        Err(payload) => {
            if let Some(x) = LAST_PANIC.with(|p| p.borrow_mut().take()) {
                return Err(x);
            }
            // raised elsewhere and resumed here: recover the location through the message
            let msg = if let Some(s) = payload.downcast_ref::<&str>() {
                s.to_string()
            } else if let Some(s) = payload.downcast_ref::<String>() {
                s.clone()
            } else {
                "<non-string panic>".into()
            };
            let loc = MSG_LOC
                .lock()
                .unwrap_or_else(|e| e.into_inner())
                .as_ref()
                .and_then(|m| m.get(&msg).cloned())
                .unwrap_or_else(|| "?".into());
            // the foreign-panic marker set by the hook belongs to this resumed panic
            let _ = take_foreign_panic();
            Err((loc, msg))
        }
    }
}

/// `guard` for check bodies: a panic becomes a `Fail` with signature `panic@<site>:<location>`.
pub fn guard_case(site: &str, f: impl FnOnce() -> CaseResult) -> CaseResult {
    match guard(f) {
        Ok(r) => r,
        Err((loc, msg)) => Err(Fail::new(
            format!("panic@{}:{}", site, loc),
            format!("panic in {} at {}: {}", site, loc, msg),
        )),
    }
}

/// Owner of a value of the library under test whose destructor may panic (a store whose worker
/// thread has died panics when it is dropped). While a check is already unwinding from a first
/// panic of the library, a second one leaving a destructor would abort the whole process and the
/// verdict with it; here it is caught and the first panic stays the reported failure.
pub struct QuietDrop<T>(std::mem::ManuallyDrop<T>);

impl<T> QuietDrop<T> {
    pub fn new(t: T) -> Self {
        QuietDrop(std::mem::ManuallyDrop::new(t))
    }
}

impl<T> std::ops::Deref for QuietDrop<T> {
    type Target = T;
    fn deref(&self) -> &T {
        &self.0
    }
}

impl<T> std::ops::DerefMut for QuietDrop<T> {
    fn deref_mut(&mut self) -> &mut T {
        &mut self.0
    }
}

impl<T> Drop for QuietDrop<T> {
    fn drop(&mut self) {
        let t = unsafe { std::mem::ManuallyDrop::take(&mut self.0) };
        if std::thread::panicking() {
            let prev = QUIET_THREAD.with(|q| std::mem::replace(&mut *q.borrow_mut(), true));
            let _ = catch_unwind(AssertUnwindSafe(move || drop(t)));
            QUIET_THREAD.with(|q| *q.borrow_mut() = prev);
        } else {
            drop(t);
        }
    }
}

// ---------------------------------------------------------------------------------------------
// known findings

#[derive(Debug, Clone)]
pub struct KnownFinding {
    pub property: String,
    pub signature: String,
    pub desc: String,
}

pub fn load_known_findings(env: &Env) -> Vec<KnownFinding> {
    let path = env.verif_dir.join("KNOWN_FINDINGS.txt");
    let mut out = vec![];
    if let Ok(s) = std::fs::read_to_string(path) {
        for line in s.lines() {
            let line = line.trim();
            if let Some(rest) = line.strip_prefix("known:") {
                let mut property = None;
                let mut signature = None;
                let mut desc = vec![];
                for tok in rest.split_whitespace() {
                    if let Some(p) = tok.strip_prefix("property=") {
                        if property.is_none() {
                            property = Some(p.to_string());
                            continue;
                        }
                    }
                    if let Some(p) = tok.strip_prefix("signature=") {
                        if signature.is_none() {
                            signature = Some(p.to_string());
                            continue;
                        }
                    }
                    desc.push(tok);
                }
                if let (Some(property), Some(signature)) = (property, signature) {
                    out.push(KnownFinding {
                        property,
                        signature,
                        desc: desc.join(" "),
                    });
                }
            }
        }
    }
    out
}

// ---------------------------------------------------------------------------------------------
// report / evidence

#[derive(Default)]
struct SubStats {
    evaluations: u64,
    nontrivial_hashes: HashSet<u64>,
    labels: BTreeMap<&'static str, u64>,
    samples_nontrivial: Vec<Value>,
    samples_trivial: Vec<Value>,
    exhaustive: Option<bool>,
    known_excluded: u64,
    notes: Vec<String>,
}

/// Per-worker accumulator (merged into the report at the end of a worker's run; avoids
/// contention on the report lock).
#[derive(Default)]
pub struct LocalStats {
    evaluations: u64,
    nontrivial: Vec<u64>,
    labels: BTreeMap<&'static str, u64>,
    samples_nontrivial: Vec<Value>,
    samples_trivial: Vec<Value>,
    known: Vec<(String, Value)>,
}

impl LocalStats {
    /// counts measured by an external engine (the Hypothesis run of C18)
    pub fn add_external(&mut self, evaluations: u64, distinct_nontrivial: u64, labels: serde_json::Map<String, Value>, samples: Vec<Value>) {
        self.evaluations += evaluations;
        // distinct hashes are counted by the engine itself; represent them by distinct numbers
        self.nontrivial.extend((0..distinct_nontrivial).map(|i| mix(0xC18, i)));
        for (k, v) in labels {
            *self.labels.entry(intern(&k)).or_default() += v.as_u64().unwrap_or(0);
        }
        self.samples_nontrivial.extend(samples.into_iter().take(2));
    }

    fn record_ok(&mut self, ok: &CaseOk, case_hash: u64, sample: impl FnOnce() -> Value) {
        self.evaluations += 1;
        for l in &ok.labels {
            *self.labels.entry(l).or_default() += 1;
        }
        if ok.nontrivial {
            self.nontrivial.push(case_hash);
            if self.samples_nontrivial.len() < 2 {
                self.samples_nontrivial.push(sample());
            }
        } else if self.samples_trivial.is_empty() {
            self.samples_trivial.push(sample());
        }
    }
}

#[derive(Debug, Clone)]
pub struct Violation {
    pub sub: String,
    pub fail: Fail,
    pub replay: PathBuf,
}

pub struct Report {
    pub prop: String,
    pub tier: Tier,
    pub seed: u64,
    pub level: &'static str,
    pub verif_dir: PathBuf,
    start: Instant,
    subs: Mutex<BTreeMap<String, SubStats>>,
    violations: Mutex<Vec<Violation>>,
    known: Vec<KnownFinding>,
    known_hit: Mutex<BTreeMap<String, u64>>,
    known_samples: Mutex<BTreeMap<String, Value>>,
    pub stop: AtomicBool,
    pub rule: Mutex<String>,
    pub assumptions: Mutex<Vec<String>>,
    pub extra: Mutex<BTreeMap<String, Value>>,
    pub inconclusive: Mutex<Vec<String>>,
}

pub fn hash_bytes(b: &[u8]) -> u64 {
    // FNV-1a 64
    let mut h: u64 = 0xcbf29ce484222325;
    for x in b {
        h ^= *x as u64;
        h = h.wrapping_mul(0x100000001b3);
    }
    h
}

pub fn hash_str(s: &str) -> u64 {
    hash_bytes(s.as_bytes())
}

pub fn mix(a: u64, b: u64) -> u64 {
    let mut z = a
        .wrapping_add(0x9e3779b97f4a7c15)
        .wrapping_add(b.wrapping_mul(0xbf58476d1ce4e5b9));
    z = (z ^ (z >> 30)).wrapping_mul(0xbf58476d1ce4e5b9);
    z = (z ^ (z >> 27)).wrapping_mul(0x94d049bb133111eb);
    z ^ (z >> 31)
}

static CURRENT_CASE: Mutex<Option<(String, Value)>> = Mutex::new(None);
pub static PROGRESS: AtomicU64 = AtomicU64::new(0);

/// For checks that evaluate their cases in this process: when no case at all has completed for
/// `secs` seconds (typical cases take micro- to milliseconds) the code under test is stuck in a
/// call that will never return. The run ends as inconclusive (exit 2) instead of hanging for ever;
/// it is never counted as a violation.
/// set while the run legitimately makes no case progress (building and running the fuzz campaigns)
pub static WATCHDOG_PAUSED: AtomicBool = AtomicBool::new(false);

pub fn stall_watchdog(secs: u64) {
    static STARTED: AtomicBool = AtomicBool::new(false);
    if STARTED.swap(true, Ordering::SeqCst) {
        return;
    }
    std::thread::spawn(move || {
        let mut last = PROGRESS.load(Ordering::Relaxed);
        let mut since = Instant::now();
        loop {
            std::thread::sleep(Duration::from_secs(2));
            let now = PROGRESS.load(Ordering::Relaxed);
            if now != last || WATCHDOG_PAUSED.load(Ordering::Relaxed) {
                last = now;
                since = Instant::now();
            } else if since.elapsed() > Duration::from_secs(secs) {
                eprintln!("[sv] inconclusive: no case has completed for {} s - a call into the code under test does not return (in-process check); ending the run", secs);
                std::process::exit(2);
            }
        }
    });
}

pub fn set_current_case(sub: &str, v: Value) {
    *CURRENT_CASE.lock().unwrap_or_else(|e| e.into_inner()) = Some((sub.to_string(), v));
}

pub fn current_case() -> Option<(String, Value)> {
    CURRENT_CASE
        .lock()
        .unwrap_or_else(|e| e.into_inner())
        .clone()
}

impl Report {
    pub fn new(env: &Env, level: &'static str) -> Self {
        Self {
            prop: env.prop.clone(),
            tier: env.tier,
            seed: env.seed,
            level,
            verif_dir: env.verif_dir.clone(),
            start: Instant::now(),
            subs: Mutex::new(BTreeMap::new()),
            violations: Mutex::new(vec![]),
            known: load_known_findings(env)
                .into_iter()
                .filter(|k| k.property == env.prop)
                .collect(),
            known_hit: Mutex::new(BTreeMap::new()),
            known_samples: Mutex::new(BTreeMap::new()),
            stop: AtomicBool::new(false),
            rule: Mutex::new(String::new()),
            assumptions: Mutex::new(vec![]),
            extra: Mutex::new(BTreeMap::new()),
            inconclusive: Mutex::new(vec![]),
        }
    }

    pub fn set_rule(&self, r: &str) {
        *self.rule.lock().unwrap() = r.to_string();
    }
    pub fn assume(&self, a: &str) {
        self.assumptions.lock().unwrap().push(a.to_string());
    }
    pub fn note(&self, sub: &str, n: String) {
        self.subs
            .lock()
            .unwrap()
            .entry(sub.to_string())
            .or_default()
            .notes
            .push(n);
    }
    pub fn set_exhaustive(&self, sub: &str, e: bool) {
        self.subs
            .lock()
            .unwrap()
            .entry(sub.to_string())
            .or_default()
            .exhaustive = Some(e);
    }
    pub fn set_extra(&self, k: &str, v: Value) {
        self.extra.lock().unwrap().insert(k.to_string(), v);
    }

    pub fn stopped(&self) -> bool {
        self.stop.load(Ordering::Relaxed)
    }

    pub fn is_known(&self, sig: &str) -> bool {
        self.known.iter().any(|k| k.signature == sig)
    }

    /// Records a passed case. `case_hash` identifies the case for the distinct count;
    /// `sample` is only evaluated when a sample slot is free.
    pub fn record_ok(
        &self,
        sub: &str,
        ok: &CaseOk,
        case_hash: u64,
        sample: impl FnOnce() -> Value,
    ) {
        PROGRESS.fetch_add(1, Ordering::Relaxed);
        let mut subs = self.subs.lock().unwrap();
        let st = subs.entry(sub.to_string()).or_default();
        st.evaluations += 1;
        for l in &ok.labels {
            *st.labels.entry(l).or_default() += 1;
        }
        if ok.nontrivial {
            let fresh = st.nontrivial_hashes.insert(case_hash);
            if fresh && st.samples_nontrivial.len() < 3 {
                st.samples_nontrivial.push(sample());
            }
        } else if st.samples_trivial.is_empty() {
            st.samples_trivial.push(sample());
        }
    }

    pub fn merge(&self, sub: &str, l: LocalStats) {
        let mut subs = self.subs.lock().unwrap();
        let st = subs.entry(sub.to_string()).or_default();
        st.evaluations += l.evaluations;
        for (k, v) in l.labels {
            *st.labels.entry(k).or_default() += v;
        }
        st.nontrivial_hashes.extend(l.nontrivial);
        for s in l.samples_nontrivial {
            if st.samples_nontrivial.len() < 3 {
                st.samples_nontrivial.push(s);
            }
        }
        for s in l.samples_trivial {
            if st.samples_trivial.is_empty() {
                st.samples_trivial.push(s);
            }
        }
        drop(subs);
        for (sig, sample) in l.known {
            self.record_known(sub, &sig);
            self.record_known_sample(&sig, || sample);
        }
    }

    /// A case whose failure matches a listed known finding: counted and excluded.
    pub fn record_known_sample(&self, sig: &str, sample: impl FnOnce() -> Value) {
        let mut ks = self.known_samples.lock().unwrap();
        if !ks.contains_key(sig) {
            ks.insert(sig.to_string(), sample());
        }
    }

    pub fn record_known(&self, sub: &str, sig: &str) {
        PROGRESS.fetch_add(1, Ordering::Relaxed);
        let mut subs = self.subs.lock().unwrap();
        let st = subs.entry(sub.to_string()).or_default();
        st.evaluations += 1;
        st.known_excluded += 1;
        *st.labels.entry("known_finding_excluded").or_default() += 1;
        *self
            .known_hit
            .lock()
            .unwrap()
            .entry(sig.to_string())
            .or_default() += 1;
    }

    /// Records a violation, writes the replay file, prints the VIOLATION line.
    pub fn record_violation(&self, sub: &str, fail: Fail, case: Value) {
        self.stop.store(true, Ordering::SeqCst);
        {
            let mut subs = self.subs.lock().unwrap();
            subs.entry(sub.to_string()).or_default().evaluations += 1;
        }
        let mut v = self.violations.lock().unwrap();
        if v.iter().any(|x| x.sub == sub) {
            return;
        }
        let body = json!({
            "property": self.prop,
            "sub": sub,
            "signature": fail.signature,
            "message": fail.msg,
            "case": case,
        });
        let text = serde_json::to_string_pretty(&body).unwrap();
        let h = hash_bytes(text.as_bytes());
        let dir = self.verif_dir.join("replays").join(&self.prop);
        let _ = std::fs::create_dir_all(&dir);
        let path = dir.join(format!("fail-{}-{:016x}.json", sub.replace('/', "_"), h));
        let _ = std::fs::write(&path, text);
        println!(
            "VIOLATION property={} replay={}",
            self.prop,
            path.display()
        );
        eprintln!("[sv] {} / {}: {} :: {}", self.prop, sub, fail.signature, fail.msg);
        v.push(Violation {
            sub: sub.to_string(),
            fail,
            replay: path,
        });
    }

    /// A violation whose replay file already exists (corpus replay).
    pub fn mark_violation_external(&self, sub: &str, fail: Fail, replay: PathBuf) {
        self.violations.lock().unwrap().push(Violation {
            sub: sub.to_string(),
            fail,
            replay,
        });
    }

    pub fn violations(&self) -> Vec<Violation> {
        self.violations.lock().unwrap().clone()
    }

    pub fn mark_inconclusive(&self, why: String) {
        self.inconclusive.lock().unwrap().push(why);
    }

    /// Writes the evidence file, prints KNOWN-FINDING lines and returns the exit code.
    pub fn finish(&self) -> i32 {
        let subs = self.subs.lock().unwrap();
        let mut evaluations = 0u64;
        let mut distinct = 0u64;
        let mut samples = vec![];
        let mut per_sub = serde_json::Map::new();
        let mut all_exhaustive: Option<bool> = None;
        let mut known_excluded = 0;
        for (name, st) in subs.iter() {
            evaluations += st.evaluations;
            distinct += st.nontrivial_hashes.len() as u64;
            known_excluded += st.known_excluded;
            for s in st.samples_nontrivial.iter().take(2) {
                samples.push(json!({"sub": name, "nontrivial": true, "case": s}));
            }
            if st.samples_nontrivial.is_empty() {
                for s in st.samples_trivial.iter().take(1) {
                    samples.push(json!({"sub": name, "nontrivial": false, "case": s}));
                }
            }
            let labels: serde_json::Map<String, Value> = st
                .labels
                .iter()
                .map(|(k, v)| (k.to_string(), json!(v)))
                .collect();
            let mut o = serde_json::Map::new();
            o.insert("evaluations".into(), json!(st.evaluations));
            o.insert(
                "distinct_nontrivial".into(),
                json!(st.nontrivial_hashes.len()),
            );
            o.insert("labels".into(), Value::Object(labels));
            if let Some(e) = st.exhaustive {
                o.insert("exhaustive".into(), json!(e));
                all_exhaustive = Some(all_exhaustive.unwrap_or(true) && e);
            } else {
                all_exhaustive = Some(false);
            }
            if st.known_excluded > 0 {
                o.insert("known_finding_excluded".into(), json!(st.known_excluded));
            }
            if !st.notes.is_empty() {
                o.insert("notes".into(), json!(st.notes));
            }
            per_sub.insert(name.clone(), Value::Object(o));
        }
        let violations = self.violations.lock().unwrap();
        let mut coverage = serde_json::Map::new();
        coverage.insert("evaluations".into(), json!(evaluations));
        coverage.insert("distinct_nontrivial".into(), json!(distinct));
        coverage.insert("rule".into(), json!(*self.rule.lock().unwrap()));
        coverage.insert("samples".into(), Value::Array(samples));
        coverage.insert("sub_checks".into(), Value::Object(per_sub));
        coverage.insert(
            "exhaustive".into(),
            json!(all_exhaustive.unwrap_or(false)),
        );
        coverage.insert("known_finding_excluded".into(), json!(known_excluded));
        {
            let ks = self.known_samples.lock().unwrap();
            if !ks.is_empty() {
                coverage.insert(
                    "known_finding_samples".into(),
                    Value::Object(ks.iter().map(|(k, v)| (k.clone(), v.clone())).collect()),
                );
            }
        }
        for (k, v) in self.extra.lock().unwrap().iter() {
            coverage.insert(k.clone(), v.clone());
        }
        let inconclusive = self.inconclusive.lock().unwrap();
        if !inconclusive.is_empty() {
            coverage.insert("inconclusive".into(), json!(*inconclusive));
        }
        if !violations.is_empty() {
            coverage.insert(
                "violation_replays".into(),
                json!(violations
                    .iter()
                    .map(|v| json!({"sub": v.sub, "signature": v.fail.signature, "message": v.fail.msg, "replay": v.replay}))
                    .collect::<Vec<_>>()),
            );
        }
        let ev = json!({
            "property_id": self.prop,
            "tier": self.tier.name(),
            "seed": self.seed,
            "level": self.level,
            "coverage": Value::Object(coverage),
            "assumptions": *self.assumptions.lock().unwrap(),
            "wall_s": self.start.elapsed().as_secs_f64(),
            "violations": violations.len(),
        });
        let dir = self.verif_dir.join("evidence");
        let _ = std::fs::create_dir_all(&dir);
        let path = dir.join(format!("{}.json", self.prop));
        std::fs::write(&path, serde_json::to_string_pretty(&ev).unwrap()).unwrap();

        for (sig, n) in self.known_hit.lock().unwrap().iter() {
            let desc = self
                .known
                .iter()
                .find(|k| &k.signature == sig)
                .map(|k| k.desc.clone())
                .unwrap_or_default();
            println!(
                "KNOWN-FINDING: property={} signature={} cases={} {}",
                self.prop, sig, n, desc
            );
        }
        eprintln!(
            "[sv] {} {} seed={} evaluations={} distinct_nontrivial={} violations={} wall={:.1}s",
            self.prop,
            self.tier.name(),
            self.seed,
            evaluations,
            distinct,
            violations.len(),
            self.start.elapsed().as_secs_f64()
        );
        if !violations.is_empty() {
            1
        } else if !inconclusive.is_empty() {
            eprintln!("[sv] inconclusive: {:?}", *inconclusive);
            2
        } else {
            0
        }
    }
}

// ---------------------------------------------------------------------------------------------
// generated search with shrinking

fn rng_for(seed: u64) -> TestRng {
    let mut bytes = [0u8; 32];
    let mut s = seed;
    for chunk in bytes.chunks_mut(8) {
        s = mix(s, 0x1234_5678_9abc_def1);
        chunk.copy_from_slice(&s.to_le_bytes());
    }
    TestRng::from_seed(RngAlgorithm::ChaCha, &bytes)
}

/// upper bound on shrinking steps (schedule-dependent checks set it lower: every step re-runs
/// the case under a forced schedule and a timing-dependent failure does not shrink reliably)
pub static MAX_SHRINK_ITERS: std::sync::atomic::AtomicU32 = std::sync::atomic::AtomicU32::new(4096);

fn config(cases: u32) -> Config {
    Config {
        cases,
        failure_persistence: None,
        max_shrink_iters: MAX_SHRINK_ITERS.load(Ordering::Relaxed),
        max_global_rejects: 65536,
        ..Config::default()
    }
}

/// Evaluates one case through `check`, classifying known findings; returns Err for a real
/// violation.
fn eval_case<C: Serialize>(
    rep: &Report,
    local: &Mutex<LocalStats>,
    sub: &str,
    case: &C,
    check: &(impl Fn(&C) -> CaseResult + ?Sized),
    counting: bool,
) -> Result<(), Fail> {
    let r = guard_case(sub, || check(case));
    PROGRESS.fetch_add(1, Ordering::Relaxed);
    match r {
        Ok(ok) => {
            if counting {
                let bytes = serde_json::to_vec(case).unwrap_or_default();
                local.lock().unwrap().record_ok(&ok, hash_bytes(&bytes), || {
                    serde_json::to_value(case).unwrap_or(Value::Null)
                });
            }
            Ok(())
        }
        Err(f) => {
            if rep.is_known(&f.signature) {
                if counting {
                    let mut l = local.lock().unwrap();
                    let sample = if l.known.iter().any(|(s, _)| *s == f.signature) {
                        Value::Null
                    } else {
                        json!({"sub": sub, "message": f.msg, "case": serde_json::to_value(case).unwrap_or(Value::Null)})
                    };
                    l.known.push((f.signature.clone(), sample));
                }
                Ok(())
            } else {
                Err(f)
            }
        }
    }
}

/// Generated-input search: `n` cases from `strategy`, each decided by `check`; a failure is
/// shrunk by proptest and saved as replay. Returns false when a violation was found.
pub fn run_generated<C, S>(
    rep: &Report,
    sub: &str,
    strategy: S,
    n: u32,
    seed: u64,
    check: impl Fn(&C) -> CaseResult,
) -> bool
where
    C: Serialize + std::fmt::Debug + Clone,
    S: Strategy<Value = C>,
{
    if n == 0 || rep.stopped() {
        return true;
    }
    let mut runner = TestRunner::new_with_rng(config(n), rng_for(mix(seed, hash_str(sub))));
    let failed = AtomicBool::new(false);
    let local = Mutex::new(LocalStats::default());
    let hung = AtomicBool::new(false);
    let first_fail: Mutex<Option<Fail>> = Mutex::new(None);
    let first_case: Mutex<Option<Value>> = Mutex::new(None);
    let track_current = std::env::var("SV_TRACK_CURRENT").is_ok();
    let res = runner.run(&strategy, |case| {
        if rep.stopped() && !failed.load(Ordering::Relaxed) {
            // another worker found a violation: finish quickly
            return Ok(());
        }
        if track_current {
            set_current_case(sub, serde_json::to_value(&case).unwrap_or(Value::Null));
        }
        if hung.load(Ordering::Relaxed) {
            // a hang or crash is not shrunk (every step would cost a time-out): report as found
            return Ok(());
        }
        let counting = !failed.load(Ordering::Relaxed);
        match eval_case(rep, &local, sub, &case, &check, counting) {
            Ok(()) => Ok(()),
            Err(f) => {
                failed.store(true, Ordering::Relaxed);
                if f.signature.starts_with("hang@") || f.signature.starts_with("crash@") || f.signature.starts_with("deadlock@") || f.signature.starts_with("no-return@") {
                    hung.store(true, Ordering::Relaxed);
                }
                let mut ff = first_fail.lock().unwrap();
                if ff.is_none() {
                    *ff = Some(f.clone());
                    *first_case.lock().unwrap() = Some(serde_json::to_value(&case).unwrap_or(Value::Null));
                }
                Err(TestCaseError::fail(f.signature))
            }
        }
    });
    rep.merge(sub, local.into_inner().unwrap());
    match res {
        Ok(()) => true,
        Err(TestError::Fail(_, minimal)) => {
            // re-evaluate the minimal case to get its message (a hang is reported as found)
            let mut case_json = serde_json::to_value(&minimal).unwrap();
            let fail = if hung.load(Ordering::Relaxed) {
                first_fail.lock().unwrap().clone().unwrap()
            } else {
                match guard_case(sub, || check(&minimal)) {
                    Err(f) => f,
                    Ok(_) => {
                        // a schedule / timing dependent failure: report the case as first found
                        let f0 = first_fail.lock().unwrap().clone().unwrap();
                        if let Some(c0) = first_case.lock().unwrap().clone() {
                            case_json = c0;
                        }
                        Fail::new(f0.signature, format!("{} (schedule dependent: the shrunk case passed when re-run; this is the case as first found)", f0.msg))
                    }
                }
            };
            rep.record_violation(sub, fail, case_json);
            false
        }
        Err(TestError::Abort(reason)) => {
            rep.mark_inconclusive(format!("{}: proptest aborted: {}", sub, reason));
            true
        }
    }
}

/// Splits `n` cases over `workers` threads (different seeds), all feeding one report.
pub fn par_generated<C, S>(
    rep: &Report,
    sub: &str,
    make_strategy: impl Fn() -> S + Sync,
    n: u32,
    workers: usize,
    check: impl Fn(&C) -> CaseResult + Sync,
) -> bool
where
    C: Serialize + std::fmt::Debug + Clone,
    S: Strategy<Value = C>,
{
    let workers = workers.max(1).min(n.max(1) as usize);
    let per = n / workers as u32;
    let extra = n % workers as u32;
    let ok = AtomicBool::new(true);
    std::thread::scope(|s| {
        for w in 0..workers {
            let cnt = per + if (w as u32) < extra { 1 } else { 0 };
            let make_strategy = &make_strategy;
            let check = &check;
            let ok = &ok;
            std::thread::Builder::new()
                .name(format!("sv-{}-{}", sub, w))
                .spawn_scoped(s, move || {
                    let r = run_generated(
                        rep,
                        sub,
                        make_strategy(),
                        cnt,
                        mix(rep.seed, w as u64 + 1),
                        check,
                    );
                    if !r {
                        ok.store(false, Ordering::SeqCst);
                    }
                })
                .unwrap();
        }
    });
    ok.load(Ordering::SeqCst)
}

/// Exhaustive enumeration helper: evaluates every case of an iterator (no shrinking: the
/// enumeration order is smallest first, so the first failure is reported as is).
pub fn run_enumerated<C>(
    rep: &Report,
    sub: &str,
    cases: impl Iterator<Item = C>,
    check: impl Fn(&C) -> CaseResult,
) -> bool
where
    C: Serialize + std::fmt::Debug + Clone,
{
    let local = Mutex::new(LocalStats::default());
    let mut ok = true;
    for case in cases {
        if rep.stopped() {
            ok = false;
            break;
        }
        if let Err(f) = eval_case(rep, &local, sub, &case, &check, true) {
            rep.record_violation(sub, f, serde_json::to_value(&case).unwrap());
            ok = false;
            break;
        }
    }
    rep.merge(sub, local.into_inner().unwrap());
    ok
}

/// Replays one saved case.
pub fn replay_case<C: DeserializeOwned>(
    v: Value,
    check: impl Fn(&C) -> CaseResult,
    sub: &str,
) -> CaseResult {
    let case: C = serde_json::from_value(v)
        .map_err(|e| Fail::new("replay-decode", format!("cannot decode case: {}", e)))?;
    guard_case(sub, || check(&case))
}

/// Draws one value from a strategy with a fixed seed (used by enumerators that need a few
/// random parameters).
pub fn sample_one<S: Strategy>(strategy: &S, seed: u64) -> S::Value {
    let mut runner = TestRunner::new_with_rng(config(1), rng_for(seed));
    strategy.new_tree(&mut runner).unwrap().current()
}

/// Number of worker threads to use.
pub fn workers() -> usize {
    std::env::var("SV_WORKERS")
        .ok()
        .and_then(|s| s.parse().ok())
        .unwrap_or_else(|| {
            std::thread::available_parallelism()
                .map(|n| n.get())
                .unwrap_or(4)
        })
}

// ---------------------------------------------------------------------------------------------
// float helpers shared by oracles

pub fn ulp32(x: f32) -> f32 {
    let a = x.abs().max(f32::MIN_POSITIVE);
    let bits = a.to_bits();
    f32::from_bits(bits + 1) - a
}

pub fn close(a: f64, b: f64, abs: f64, rel: f64) -> bool {
    (a - b).abs() <= abs + rel * a.abs().max(b.abs())
}

// ---------------------------------------------------------------------------------------------
// process isolation: evaluate cases in child processes so that a hang or a hard crash of the
// code under test costs one child, not the run.

use std::io::{BufRead, BufReader, Write};
use std::process::{Child, ChildStdin, Command, Stdio};
use std::sync::mpsc::{channel, Receiver, RecvTimeoutError};
use std::time::Duration;

struct IsoChild {
    child: Child,
    stdin: ChildStdin,
    lines: Receiver<String>,
}

impl IsoChild {
    fn spawn(prop: &str, sub: &str) -> std::io::Result<Self> {
        let exe = std::env::current_exe()?;
        let mut child = Command::new(exe)
            .arg(prop)
            .arg("--child")
            .arg(sub)
            .stdin(Stdio::piped())
            .stdout(Stdio::piped())
            .stderr(match std::env::var("SV_CHILD_STDERR") {
                Ok(p) => std::fs::OpenOptions::new().create(true).append(true).open(p).map(Stdio::from).unwrap_or_else(|_| Stdio::null()),
                Err(_) => Stdio::null(),
            })
            .spawn()?;
        let stdin = child.stdin.take().unwrap();
        let stdout = child.stdout.take().unwrap();
        let (tx, rx) = channel();
        std::thread::spawn(move || {
            let r = BufReader::new(stdout);
            for l in r.lines() {
                match l {
                    Ok(l) => {
                        if tx.send(l).is_err() {
                            break;
                        }
                    }
                    Err(_) => break,
                }
            }
        });
        Ok(IsoChild { child, stdin, lines: rx })
    }

    fn kill(mut self) {
        let _ = self.child.kill();
        let _ = self.child.wait();
    }
}

pub struct IsoPool {
    prop: String,
    sub: String,
    timeout: Duration,
    idle: Mutex<Vec<IsoChild>>,
    pub timeouts: AtomicU64,
    pub crashes: AtomicU64,
}

fn intern(s: &str) -> &'static str {
    static TABLE: Mutex<Option<std::collections::HashSet<&'static str>>> = Mutex::new(None);
    let mut t = TABLE.lock().unwrap();
    let t = t.get_or_insert_with(Default::default);
    if let Some(x) = t.get(s) {
        return x;
    }
    let leaked: &'static str = Box::leak(s.to_string().into_boxed_str());
    t.insert(leaked);
    leaked
}

impl IsoPool {
    pub fn new(prop: &str, sub: &str, timeout: Duration) -> Self {
        Self {
            prop: prop.to_string(),
            sub: sub.to_string(),
            timeout,
            idle: Mutex::new(vec![]),
            timeouts: AtomicU64::new(0),
            crashes: AtomicU64::new(0),
        }
    }

    /// Evaluates one serialized case in a child. A child that does not answer within the
    /// timeout is killed: `hang@<sub>`; a child that dies: `crash@<sub>`.
    pub fn eval<C: Serialize>(&self, case: &C) -> CaseResult {
        let line = serde_json::to_string(case).unwrap();
        let mut child = match self.idle.lock().unwrap().pop() {
            Some(c) => c,
            None => IsoChild::spawn(&self.prop, &self.sub)
                .map_err(|e| Fail::new("harness-spawn", format!("cannot spawn child: {}", e)))?,
        };
        if writeln!(child.stdin, "{}", line).is_err() || child.stdin.flush().is_err() {
            child.kill();
            self.crashes.fetch_add(1, Ordering::Relaxed);
            return Err(Fail::new(format!("crash@{}", self.sub), "child process died before accepting the case".to_string()));
        }
        match child.lines.recv_timeout(self.timeout) {
            Ok(l) => {
                let v: Value = match serde_json::from_str(&l) {
                    Ok(v) => v,
                    Err(e) => {
                        child.kill();
                        return Err(Fail::new("harness-protocol", format!("bad child answer {:?}: {}", l, e)));
                    }
                };
                if v.get("exiting").is_some() {
                    // the child's watchdog answered and the child is going away
                    child.kill();
                } else {
                    self.idle.lock().unwrap().push(child);
                }
                if let Some(ok) = v.get("ok") {
                    let labels = ok
                        .get("labels")
                        .and_then(|l| l.as_array())
                        .map(|a| a.iter().filter_map(|x| x.as_str()).map(intern).collect())
                        .unwrap_or_default();
                    Ok(CaseOk {
                        nontrivial: ok.get("nontrivial").and_then(|b| b.as_bool()).unwrap_or(false),
                        labels,
                    })
                } else if let Some(f) = v.get("fail") {
                    Err(Fail::new(
                        f.get("signature").and_then(|s| s.as_str()).unwrap_or("?"),
                        f.get("msg").and_then(|s| s.as_str()).unwrap_or("?"),
                    ))
                } else {
                    Err(Fail::new("harness-protocol", format!("bad child answer {:?}", l)))
                }
            }
            Err(RecvTimeoutError::Timeout) => {
                child.kill();
                self.timeouts.fetch_add(1, Ordering::Relaxed);
                Err(Fail::new(
                    format!("hang@{}", self.sub),
                    format!("no answer within {:?} (the child evaluating the case was killed)", self.timeout),
                ))
            }
            Err(RecvTimeoutError::Disconnected) => {
                child.kill();
                self.crashes.fetch_add(1, Ordering::Relaxed);
                Err(Fail::new(format!("crash@{}", self.sub), "child process died while evaluating the case".to_string()))
            }
        }
    }

    pub fn shutdown(&self) {
        for c in self.idle.lock().unwrap().drain(..) {
            c.kill();
        }
    }
}

impl Drop for IsoPool {
    fn drop(&mut self) {
        self.shutdown();
    }
}

/// Child side of `IsoPool`: one JSON case per input line, one JSON answer per output line.
pub fn child_loop(sub: &str, replay: fn(&str, Value) -> Option<CaseResult>) -> i32 {
    let stdin = std::io::stdin();
    let stdout = std::io::stdout();
    // A thread of the code under test that dies (panics) usually leaves its caller blocked for
    // ever. The watchdog turns "a foreign panic was recorded and the case did not finish within
    // 3 s" into a failure answer and ends this child.
    static CASE_STARTED: Mutex<Option<Instant>> = Mutex::new(None);
    std::thread::spawn(|| loop {
        std::thread::sleep(Duration::from_millis(200));
        let started = *CASE_STARTED.lock().unwrap();
        if let (Some(t0), Some((loc, msg))) = (started, peek_foreign_panic()) {
            if t0.elapsed() > Duration::from_secs(3) {
                let ans = json!({"exiting": true, "fail": {"signature": format!("panic@thread:{}", loc), "msg": format!("a thread of the code under test panicked at {} ({}) and the operation did not return within 3 s afterwards", loc, msg)}});
                let out = std::io::stdout();
                let mut o = out.lock();
                let _ = writeln!(o, "{}", ans);
                let _ = o.flush();
                std::process::exit(3);
            }
        }
    });
    for line in stdin.lock().lines() {
        let line = match line {
            Ok(l) => l,
            Err(_) => break,
        };
        if line.trim().is_empty() {
            continue;
        }
        let v: Value = match serde_json::from_str(&line) {
            Ok(v) => v,
            Err(e) => {
                let mut o = stdout.lock();
                let _ = writeln!(o, "{}", json!({"fail": {"signature": "harness-protocol", "msg": format!("bad case: {}", e)}}));
                let _ = o.flush();
                continue;
            }
        };
        let _ = take_foreign_panic();
        *CASE_STARTED.lock().unwrap() = Some(Instant::now());
        let r = replay(sub, v).unwrap_or_else(|| Err(Fail::new("harness-protocol", format!("unknown sub-check {}", sub))));
        *CASE_STARTED.lock().unwrap() = None;
        // a panic on a foreign thread that did not block the caller is still a failure
        let r = match (r, take_foreign_panic()) {
            (Ok(_), Some((loc, msg))) => Err(Fail::new(format!("panic@thread:{}", loc), format!("a thread of the code under test panicked at {}: {}", loc, msg))),
            (r, _) => r,
        };
        let ans = match r {
            Ok(ok) => json!({"ok": {"nontrivial": ok.nontrivial, "labels": ok.labels}}),
            Err(f) => json!({"fail": {"signature": f.signature, "msg": f.msg}}),
        };
        let mut o = stdout.lock();
        let _ = writeln!(o, "{}", ans);
        let _ = o.flush();
    }
    0
}
