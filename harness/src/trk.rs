//! Uniform driver over the four trackers (Sort, BatchSort, VisualSort, BatchVisualSort):
//! configuration and detection types (serialisable, so cases replay), record conversion, and
//! read-only views of stored tracks through the public accessors.

use crate::gen::boxes::UB;
use serde::{Deserialize, Serialize};
use similari::prelude::*;
use similari::track::utils::FromVec;
use similari::trackers::batch::PredictionBatchRequest;
use similari::trackers::kalman_prediction::TrackAttributesKalmanPrediction;
use similari::trackers::sort::{SortTrack, VotingType, WastedSortTrack};
use similari::trackers::tracker_api::TrackerAPI;
use similari::trackers::visual_sort::batch_api::BatchVisualSort;
use similari::trackers::visual_sort::WastedVisualSortTrack;
use std::collections::BTreeSet;

#[derive(Clone, Copy, Debug, Serialize, Deserialize, PartialEq, Eq, Hash)]
pub enum Kind {
    Sort,
    BatchSort,
    VisualSort,
    BatchVisualSort,
}

impl Kind {
    pub fn is_batch(&self) -> bool {
        matches!(self, Kind::BatchSort | Kind::BatchVisualSort)
    }
    pub fn is_visual(&self) -> bool {
        matches!(self, Kind::VisualSort | Kind::BatchVisualSort)
    }
    pub fn simple(&self) -> Kind {
        match self {
            Kind::BatchSort => Kind::Sort,
            Kind::BatchVisualSort => Kind::VisualSort,
            k => *k,
        }
    }
    pub fn name(&self) -> &'static str {
        match self {
            Kind::Sort => "sort",
            Kind::BatchSort => "batch_sort",
            Kind::VisualSort => "visual_sort",
            Kind::BatchVisualSort => "batch_visual_sort",
        }
    }
}

#[derive(Clone, Copy, Debug, Serialize, Deserialize, PartialEq)]
pub enum Pos {
    IoU(f32),
    Maha,
}

#[derive(Clone, Debug, Serialize, Deserialize)]
pub struct VisCfg {
    pub cosine: bool,
    pub threshold: f32,
    pub min_votes: usize,
    pub min_track_len: usize,
    pub max_obs: usize,
    pub q_use: f32,
    pub q_collect: f32,
    pub min_area: f32,
    pub own_use: f32,
    pub own_collect: f32,
}

impl Default for VisCfg {
    fn default() -> Self {
        VisCfg { cosine: false, threshold: 1.0, min_votes: 1, min_track_len: 1, max_obs: 3, q_use: 0.0, q_collect: 0.0, min_area: 0.0, own_use: 0.0, own_collect: 0.0 }
    }
}

#[derive(Clone, Debug, Serialize, Deserialize)]
pub struct Cfg {
    pub kind: Kind,
    pub shards: usize,
    pub voting_shards: usize,
    pub history: usize,
    pub max_idle: usize,
    pub pos: Pos,
    pub min_conf: f32,
    pub constraints: Option<Vec<(usize, f32)>>,
    pub wp: f32,
    pub wv: f32,
    #[serde(default)]
    pub vis: VisCfg,
}

impl Cfg {
    pub fn threshold(&self) -> f32 {
        match self.pos {
            Pos::IoU(t) => t,
            Pos::Maha => 1.0,
        }
    }
    fn metric(&self) -> PositionalMetricType {
        match self.pos {
            Pos::IoU(t) => PositionalMetricType::IoU(t),
            Pos::Maha => PositionalMetricType::Mahalanobis,
        }
    }
    fn constraints(&self) -> Option<SpatioTemporalConstraints> {
        self.constraints.as_ref().map(|c| SpatioTemporalConstraints::default().constraints(c))
    }
    fn visual_options(&self) -> VisualSortOptions {
        let v = &self.vis;
        let mut o = VisualSortOptions::default()
            .max_idle_epochs(self.max_idle)
            .kept_history_length(self.history)
            .visual_metric(if v.cosine { VisualSortMetricType::cosine(v.threshold) } else { VisualSortMetricType::euclidean(v.threshold) })
            .positional_metric(self.metric())
            .visual_max_observations(v.max_obs)
            .visual_minimal_track_length(v.min_track_len)
            .visual_min_votes(v.min_votes)
            .visual_minimal_area(v.min_area)
            .visual_minimal_quality_use(v.q_use)
            .visual_minimal_quality_collect(v.q_collect)
            .visual_minimal_own_area_percentage_use(v.own_use)
            .visual_minimal_own_area_percentage_collect(v.own_collect)
            .positional_min_confidence(self.min_conf)
            .kalman_position_weight(self.wp)
            .kalman_velocity_weight(self.wv);
        if let Some(c) = self.constraints() {
            o = o.spatio_temporal_constraints(c);
        }
        o
    }
}

#[derive(Clone, Debug, Serialize, Deserialize)]
pub struct Det {
    pub b: UB,
    pub custom: Option<i64>,
    #[serde(default)]
    pub feat: Option<Vec<f32>>,
    #[serde(default)]
    pub q: Option<f32>,
}

#[derive(Clone, Debug, Serialize, PartialEq)]
pub struct Rec {
    pub id: u64,
    pub epoch: usize,
    pub scene: u64,
    pub length: usize,
    pub custom: Option<i64>,
    pub visual: bool,
    pub observed: UB,
    pub predicted: UB,
}

impl Rec {
    pub fn from(t: &SortTrack) -> Self {
        Rec {
            id: t.id,
            epoch: t.epoch,
            scene: t.scene_id,
            length: t.length,
            custom: t.custom_object_id,
            visual: matches!(t.voting_type, VotingType::Visual),
            observed: UB::from_lib(&t.observed_bbox),
            predicted: UB::from_lib(&t.predicted_bbox),
        }
    }
}

#[derive(Clone, Debug, Serialize, PartialEq)]
pub struct WRec {
    pub id: u64,
    pub epoch: usize,
    pub scene: u64,
    pub length: usize,
    pub observed_last: UB,
    pub predicted_last: UB,
    pub observed: Vec<UB>,
    pub predicted: Vec<UB>,
    pub features: Option<Vec<Option<Vec<f32>>>>,
}

#[derive(Clone, Debug, Serialize)]
pub struct GalleryItem {
    pub bbox: Option<UB>,
    pub quality: f32,
    pub own_area: Option<f32>,
    pub feature: Option<Vec<f32>>,
}

/// What can be read of a stored track through public accessors.
#[derive(Clone, Debug, Serialize)]
pub struct TrackView {
    pub id: u64,
    pub scene: u64,
    pub last_epoch: usize,
    pub length: usize,
    pub custom: Option<i64>,
    pub observed: Vec<UB>,
    pub predicted: Vec<UB>,
    pub features: Vec<Option<Vec<f32>>>,
    /// raw Kalman state (mean, covariance row-major)
    pub state: Option<(Vec<f32>, Vec<f32>)>,
    /// class-0 observations, index 0 = newest
    pub gallery: Vec<GalleryItem>,
    pub collected: usize,
    pub visual_vote: Option<bool>,
}

/// results of a pipelined batch, being drained by their own thread
pub struct Pending {
    handle: std::thread::JoinHandle<Vec<(u64, Vec<SortTrack>)>>,
}

impl Pending {
    pub fn collect(self) -> Vec<(u64, Vec<Rec>)> {
        self.handle.join().expect("drainer thread panicked").into_iter().map(|(s, v)| (s, v.iter().map(Rec::from).collect())).collect()
    }
}

pub enum Tracker {
    S(Sort),
    BS(BatchSort),
    V(VisualSort),
    BV(BatchVisualSort),
}

fn sort_input(d: &[Det]) -> Vec<(Universal2DBox, Option<i64>)> {
    d.iter().map(|x| (x.b.lib(), x.custom)).collect()
}

fn vis_input(d: &[Det]) -> Vec<VisualSortObservation<'_>> {
    d.iter().map(|x| VisualSortObservation::new(x.feat.as_deref(), x.q, x.b.lib(), x.custom)).collect()
}

macro_rules! each {
    ($self:expr, $t:ident => $e:expr) => {
        match $self {
            Tracker::S($t) => $e,
            Tracker::BS($t) => $e,
            Tracker::V($t) => $e,
            Tracker::BV($t) => $e,
        }
    };
}

impl Tracker {
    pub fn new(c: &Cfg) -> Self {
        match c.kind {
            Kind::Sort => Tracker::S(Sort::new(c.shards, c.history, c.max_idle, c.metric(), c.min_conf, c.constraints(), c.wp, c.wv)),
            Kind::BatchSort => Tracker::BS(BatchSort::new(c.shards, c.voting_shards, c.history, c.max_idle, c.metric(), c.min_conf, c.constraints(), c.wp, c.wv)),
            Kind::VisualSort => Tracker::V(VisualSort::new(c.shards, &c.visual_options())),
            Kind::BatchVisualSort => Tracker::BV(BatchVisualSort::new(c.shards, c.voting_shards, &c.visual_options())),
        }
    }

    /// one call for one scene (batch trackers: a one-scene batch, drained by the caller)
    pub fn predict(&mut self, scene: u64, dets: &[Det]) -> Vec<Rec> {
        match self {
            Tracker::S(t) => t.predict_with_scene(scene, &sort_input(dets)).iter().map(Rec::from).collect(),
            Tracker::V(t) => t.predict_with_scene(scene, &vis_input(dets)).iter().map(Rec::from).collect(),
            _ => {
                // a batch cannot contain a scene without detections: no call happens at all
                if dets.is_empty() {
                    return vec![];
                }
                let mut r = self.predict_batch(&[(scene, dets.to_vec())], false);
                assert_eq!(r.len(), 1, "a one-scene batch must deliver one result");
                r.pop().unwrap().1
            }
        }
    }

    /// Submits one batch. Batch trackers: exactly `batch_size()` results are drained, on the
    /// caller (after `predict` returned) or on a drainer thread started before the submission.
    /// Simple trackers: the scenes are processed one by one in the given order.
    /// A scene must not occur twice in `batch`; scenes with no detections are not part of a batch.
    pub fn predict_batch(&mut self, batch: &[(u64, Vec<Det>)], drain_on_thread: bool) -> Vec<(u64, Vec<Rec>)> {
        match self {
            Tracker::S(_) | Tracker::V(_) => batch.iter().map(|(s, d)| (*s, self.predict(*s, d))).collect(),
            Tracker::BS(t) => {
                let (mut req, res) = PredictionBatchRequest::<(Universal2DBox, Option<i64>)>::new();
                for (s, d) in batch {
                    for x in sort_input(d) {
                        req.add(*s, x);
                    }
                }
                let n = res.batch_size();
                if drain_on_thread {
                    let h = std::thread::spawn(move || (0..n).map(|_| res.get()).collect::<Vec<_>>());
                    t.predict(req);
                    h.join().unwrap().into_iter().map(|(s, v)| (s, v.iter().map(Rec::from).collect())).collect()
                } else {
                    t.predict(req);
                    (0..n).map(|_| res.get()).map(|(s, v)| (s, v.iter().map(Rec::from).collect())).collect()
                }
            }
            Tracker::BV(t) => {
                let (mut req, res) = PredictionBatchRequest::<VisualSortObservation>::new();
                for (s, d) in batch {
                    for x in vis_input(d) {
                        req.add(*s, x);
                    }
                }
                let n = res.batch_size();
                if drain_on_thread {
                    let h = std::thread::spawn(move || (0..n).map(|_| res.get()).collect::<Vec<_>>());
                    t.predict(req);
                    h.join().unwrap().into_iter().map(|(s, v)| (s, v.iter().map(Rec::from).collect())).collect()
                } else {
                    t.predict(req);
                    (0..n).map(|_| res.get()).map(|(s, v)| (s, v.iter().map(Rec::from).collect())).collect()
                }
            }
        }
    }

    /// Pipelined submission (batch trackers only): a drainer thread is started, the batch is
    /// submitted and the call returns without waiting for the results, so that the next batch
    /// can be submitted while the voting jobs of this one are still running.
    pub fn submit_batch(&mut self, batch: &[(u64, Vec<Det>)]) -> Option<Pending> {
        self.submit_batch_delayed(batch, 0)
    }

    /// ... with a consumer that starts reading the results only after `delay_ms`
    pub fn submit_batch_delayed(&mut self, batch: &[(u64, Vec<Det>)], delay_ms: u64) -> Option<Pending> {
        match self {
            Tracker::BS(t) => {
                let (mut req, res) = PredictionBatchRequest::<(Universal2DBox, Option<i64>)>::new();
                for (s, d) in batch {
                    for x in sort_input(d) {
                        req.add(*s, x);
                    }
                }
                let n = res.batch_size();
                let handle = std::thread::spawn(move || {
                    if delay_ms > 0 {
                        std::thread::sleep(std::time::Duration::from_millis(delay_ms));
                    }
                    (0..n).map(|_| res.get()).collect::<Vec<_>>()
                });
                t.predict(req);
                Some(Pending { handle })
            }
            Tracker::BV(t) => {
                let (mut req, res) = PredictionBatchRequest::<VisualSortObservation>::new();
                for (s, d) in batch {
                    for x in vis_input(d) {
                        req.add(*s, x);
                    }
                }
                let n = res.batch_size();
                let handle = std::thread::spawn(move || {
                    if delay_ms > 0 {
                        std::thread::sleep(std::time::Duration::from_millis(delay_ms));
                    }
                    (0..n).map(|_| res.get()).collect::<Vec<_>>()
                });
                t.predict(req);
                Some(Pending { handle })
            }
            _ => None,
        }
    }

    pub fn skip(&mut self, scene: u64, n: usize) {
        // scene 0 has a twin entry point without a scene argument: used for odd amounts
        if scene == 0 && n % 2 == 1 {
            return each!(self, t => t.skip_epochs(n));
        }
        each!(self, t => t.skip_epochs_for_scene(scene, n))
    }
    pub fn epoch(&self, scene: u64) -> usize {
        each!(self, t => t.current_epoch_with_scene(scene))
    }
    pub fn set_auto_waste(&mut self, p: usize) {
        each!(self, t => t.set_auto_waste(p))
    }
    pub fn clear_wasted(&mut self) {
        each!(self, t => t.clear_wasted())
    }
    pub fn active_stats(&self) -> Vec<usize> {
        each!(self, t => t.active_shard_stats())
    }
    pub fn wasted_stats(&self) -> Vec<usize> {
        each!(self, t => t.wasted_shard_stats())
    }
    pub fn idle(&mut self, scene: u64) -> Vec<Rec> {
        each!(self, t => t.idle_tracks_with_scene(scene).iter().map(Rec::from).collect())
    }

    pub fn wasted(&mut self) -> Vec<WRec> {
        match self {
            Tracker::S(t) => t.wasted().into_iter().map(|x| wrec_sort(WastedSortTrack::from(x))).collect(),
            Tracker::BS(t) => t.wasted().into_iter().map(|x| wrec_sort(WastedSortTrack::from(x))).collect(),
            Tracker::V(t) => t.wasted().into_iter().map(|x| wrec_vis(WastedVisualSortTrack::from(x))).collect(),
            Tracker::BV(t) => t.wasted().into_iter().map(|x| wrec_vis(WastedVisualSortTrack::from(x))).collect(),
        }
    }

    fn ids(&self, shards: usize, wasted: bool) -> BTreeSet<u64> {
        let mut out = BTreeSet::new();
        macro_rules! walk {
            ($t:expr) => {{
                let store = if wasted { $t.get_wasted_store() } else { $t.get_main_store() };
                for s in 0..shards {
                    for id in store.get_store(s).keys() {
                        out.insert(*id);
                    }
                }
            }};
        }
        match self {
            Tracker::S(t) => walk!(t),
            Tracker::BS(t) => walk!(t),
            Tracker::V(t) => walk!(t),
            Tracker::BV(t) => walk!(t),
        }
        out
    }

    pub fn main_ids(&self, shards: usize) -> BTreeSet<u64> {
        self.ids(shards, false)
    }
    pub fn wasted_ids(&self, shards: usize) -> BTreeSet<u64> {
        self.ids(shards, true)
    }

    /// view of a track stored in the main store
    pub fn view(&self, id: u64) -> Option<TrackView> {
        match self {
            Tracker::S(t) => {
                let store = t.get_main_store();
                let g = store.get_store(id as usize);
                g.get(&id).map(view_sort)
            }
            Tracker::BS(t) => {
                let store = t.get_main_store();
                let g = store.get_store(id as usize);
                g.get(&id).map(view_sort)
            }
            Tracker::V(t) => {
                let store = t.get_main_store();
                let g = store.get_store(id as usize);
                g.get(&id).map(view_vis)
            }
            Tracker::BV(t) => {
                let store = t.get_main_store();
                let g = store.get_store(id as usize);
                g.get(&id).map(view_vis)
            }
        }
    }

    pub fn views(&self, shards: usize) -> Vec<TrackView> {
        self.main_ids(shards).into_iter().filter_map(|id| self.view(id)).collect()
    }
}

fn wrec_sort(w: WastedSortTrack) -> WRec {
    WRec {
        id: w.id,
        epoch: w.epoch,
        scene: w.scene_id,
        length: w.length,
        observed_last: UB::from_lib(&w.observed_bbox),
        predicted_last: UB::from_lib(&w.predicted_bbox),
        observed: w.observed_boxes.iter().map(UB::from_lib).collect(),
        predicted: w.predicted_boxes.iter().map(UB::from_lib).collect(),
        features: None,
    }
}

fn wrec_vis(w: WastedVisualSortTrack) -> WRec {
    WRec {
        id: w.id,
        epoch: w.epoch,
        scene: w.scene_id,
        length: w.length,
        observed_last: UB::from_lib(&w.observed_bbox),
        predicted_last: UB::from_lib(&w.predicted_bbox),
        observed: w.observed_boxes.iter().map(UB::from_lib).collect(),
        predicted: w.predicted_boxes.iter().map(UB::from_lib).collect(),
        features: Some(w.observed_features.clone()),
    }
}

type SortStoredTrack = similari::track::Track<similari::trackers::sort::SortAttributes, similari::trackers::sort::metric::SortMetric, Universal2DBox>;
type VisStoredTrack = similari::track::Track<
    similari::trackers::visual_sort::track_attributes::VisualAttributes,
    similari::trackers::visual_sort::metric::VisualMetric,
    similari::trackers::visual_sort::observation_attributes::VisualObservationAttributes,
>;

fn view_sort(t: &SortStoredTrack) -> TrackView {
    let a = t.get_attributes();
    let gallery = t
        .get_observations(0)
        .map(|v| v.iter().map(|o| GalleryItem { bbox: o.attr().as_ref().map(UB::from_lib), quality: 1.0, own_area: None, feature: None }).collect())
        .unwrap_or_default();
    TrackView {
        id: t.get_track_id(),
        scene: a.scene_id,
        last_epoch: a.last_updated_epoch,
        length: a.track_length,
        custom: a.custom_object_id,
        observed: a.observed_boxes.iter().map(UB::from_lib).collect(),
        predicted: a.predicted_boxes.iter().map(UB::from_lib).collect(),
        features: vec![],
        state: a.get_state().map(|s| s.verif_raw()),
        gallery,
        collected: 0,
        visual_vote: None,
    }
}

fn view_vis(t: &VisStoredTrack) -> TrackView {
    let a = t.get_attributes();
    let gallery = t
        .get_observations(0)
        .map(|v| {
            v.iter()
                .map(|o| {
                    let at = o.attr().as_ref();
                    GalleryItem {
                        bbox: at.and_then(|x| x.bbox_opt().as_ref().map(UB::from_lib)),
                        quality: at.map(|x| x.visual_quality()).unwrap_or(f32::NAN),
                        own_area: at.and_then(|x| *x.own_area_percentage_opt()),
                        feature: o.feature().as_ref().map(|f| Vec::from_vec(f)),
                    }
                })
                .collect()
        })
        .unwrap_or_default();
    TrackView {
        id: t.get_track_id(),
        scene: a.scene_id,
        last_epoch: a.last_updated_epoch,
        length: a.track_length,
        custom: a.custom_object_id,
        observed: a.observed_boxes.iter().map(UB::from_lib).collect(),
        predicted: a.predicted_boxes.iter().map(UB::from_lib).collect(),
        features: a.observed_features.iter().map(|f| f.as_ref().map(|f| Vec::from_vec(f))).collect(),
        state: a.get_state().map(|s| s.verif_raw()),
        gallery,
        collected: a.visual_features_collected_count,
        visual_vote: a.voting_type.map(|v| matches!(v, VotingType::Visual)),
    }
}
