use sv::core::{install_panic_hook, Env, Tier};
use std::path::PathBuf;

fn usage() -> ! {
    eprintln!("usage: check <ID> [--tier quick|thorough] [--replay <file>] [--worker i/n]");
    std::process::exit(64);
}

fn main() {
    let args: Vec<String> = std::env::args().skip(1).collect();
    if args.is_empty() {
        usage();
    }
    let prop = args[0].clone();
    let mut tier = match std::env::var("VERIF_TIER").ok().as_deref() {
        Some("thorough") => Tier::Thorough,
        _ => Tier::Quick,
    };
    let mut replay: Option<PathBuf> = None;
    let mut worker = None;
    let mut child: Option<String> = None;
    let mut i = 1;
    while i < args.len() {
        match args[i].as_str() {
            "--tier" => {
                i += 1;
                tier = match args.get(i).map(|s| s.as_str()) {
                    Some("quick") => Tier::Quick,
                    Some("thorough") => Tier::Thorough,
                    _ => usage(),
                };
            }
            "--replay" => {
                i += 1;
                replay = Some(PathBuf::from(args.get(i).cloned().unwrap_or_else(|| usage())));
            }
            "--child" => {
                i += 1;
                child = Some(args.get(i).cloned().unwrap_or_else(|| usage()));
            }
            "--worker" => {
                i += 1;
                let s = args.get(i).cloned().unwrap_or_else(|| usage());
                let (a, b) = s.split_once('/').unwrap_or_else(|| usage());
                worker = Some((a.parse().unwrap(), b.parse().unwrap()));
            }
            _ => usage(),
        }
        i += 1;
    }
    let seed = std::env::var("VERIF_SEED")
        .ok()
        .and_then(|s| s.parse::<i64>().ok())
        .map(|v| v as u64)
        .unwrap_or(0);
    let verif_dir = std::env::var("SV_VERIF_DIR")
        .map(PathBuf::from)
        .unwrap_or_else(|_| PathBuf::from("/verif"));
    install_panic_hook();
    let env = Env {
        prop,
        tier,
        seed,
        verif_dir,
        worker,
    };
    if let Some(sub) = child {
        std::env::set_var("SV_FOREIGN_PANIC_QUIET", "1");
        std::process::exit(sv::props::child(&env, &sub));
    }
    let code = match replay {
        Some(p) => sv::props::replay_file(&env, &p),
        None => sv::props::run(&env),
    };
    std::process::exit(code);
}
