use similari::utils::bbox::Universal2DBox;
fn main() {
    let a = Universal2DBox::new(19.999998092651367, 19.999998092651367, Some(3.1999998092651367), 1.7480076551437378, 2.000000238418579);
    let b = Universal2DBox::new(19.999998092651367, 19.999998092651367, Some(3.1999998092651367), 2.9999589920043945, 2.000000238418579);
    println!("a^b {} b^a {}", Universal2DBox::intersection(&a, &b), Universal2DBox::intersection(&b, &a));
    let mut a2 = Universal2DBox::new(19.999998092651367, 19.999998092651367, Some(3.1999998092651367), 2.999999761581421, 2.000000238418579);
    a2.gen_vertices();
    a2.aspect = 1.7480076551437378;
    println!("edited a2^b {} b^a2 {}", Universal2DBox::intersection(&a2, &b), Universal2DBox::intersection(&b, &a2));
    let a3 = a2.clone();
    println!("clone a3^b {}", Universal2DBox::intersection(&a3, &b));
    use similari::utils::clipping::sutherland_hodgman_clip;
    println!("{:?}", a2);
}
