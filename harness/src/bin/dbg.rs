use sv::gen::scenes::{History, Op};
use sv::trk::Tracker;
fn main() {
    let path = std::env::args().nth(1).unwrap();
    let v: serde_json::Value = serde_json::from_str(&std::fs::read_to_string(path).unwrap()).unwrap();
    let h: History = serde_json::from_value(v["case"].clone()).unwrap();
    let mut tr = Tracker::new(&h.cfg);
    let show = |tr: &Tracker| { for v in tr.views(h.cfg.shards) { println!("   track {} scene {} len {} collected {} gallery {:?}", v.id, v.scene, v.length, v.collected, v.gallery.iter().map(|g| (g.bbox.is_some(), g.quality, g.own_area, g.feature.as_ref().map(|f| f[0]))).collect::<Vec<_>>()); } };
    let grouped = std::env::args().nth(2).is_some();
    let mut k = 0;
    while k < h.ops.len() {
        if let Op::Predict { scene, dets } = &h.ops[k] {
            let d = h.dets(dets, 1000 * k as i64);
            if grouped && k + 1 < h.ops.len() {
                if let Op::Predict { scene: s2, dets: d2 } = &h.ops[k + 1] {
                    if s2 != scene && !d.is_empty() && !d2.is_empty() {
                        let dd2 = h.dets(d2, 1000 * (k + 1) as i64);
                        println!("batch ops {} + {}", k, k + 1);
                        let r = tr.predict_batch(&[(*scene, d.clone()), (*s2, dd2)], false);
                        println!("  -> {:?}", r.iter().map(|(s, r)| (s, r.iter().map(|x| (x.id, x.length)).collect::<Vec<_>>())).collect::<Vec<_>>());
                        show(&tr);
                        k += 2;
                        continue;
                    }
                }
            }
            println!("op {} scene {} dets {:?}", k, scene, d.iter().map(|x| (x.feat.as_ref().map(|f| f[0]), x.q)).collect::<Vec<_>>());
            if !d.is_empty() { let r = tr.predict(*scene, &d); println!("  -> {:?}", r.iter().map(|x| (x.id, x.length)).collect::<Vec<_>>()); }
            show(&tr);
        }
        k += 1;
    }
}
