//! Schedule-point controller for the cfg(similari_verif) hooks.
//!
//! A `Plan` is a total order over selected events ("steps"). An arriving event that matches a
//! not-yet-done step waits (bounded) until every earlier step is done; events that match no
//! step pass immediately. A step is done when its `done_site` event arrives (e.g. the `end` of
//! the command whose `begin` was gated) or, for one-shot steps, as soon as it passes.
//! Waits are bounded: the controller can bias a schedule but can never create a deadlock the
//! code does not have; expired waits are counted as deviations. Delays add short sleeps at
//! chosen occurrences of a site.

use std::collections::HashMap;
use std::sync::{Arc, Condvar, Mutex};
use std::time::{Duration, Instant};

#[derive(Clone, Debug, Eq, Hash)]
pub struct Key {
    pub site: &'static str,
    pub a: u64,
    pub b: u64,
}

/// wildcard for `a` / `b`
pub const ANY: u64 = u64::MAX;

impl PartialEq for Key {
    fn eq(&self, o: &Key) -> bool {
        self.site == o.site && (self.a == o.a || self.a == ANY || o.a == ANY) && (self.b == o.b || self.b == ANY || o.b == ANY)
    }
}

#[derive(Clone, Debug)]
pub struct Step {
    /// event that is held back until all earlier steps are done
    pub gate: Key,
    /// event that marks the step done (None = done when the gate passes)
    pub done: Option<Key>,
}

#[derive(Clone, Debug, Default)]
pub struct Plan {
    pub steps: Vec<Step>,
    /// (site, occurrence) -> microseconds
    pub delays: Vec<(&'static str, u32, u32)>,
    pub gate_timeout_ms: u64,
}

struct State {
    passed: Vec<bool>,
    done: Vec<bool>,
    log: Vec<(&'static str, u64, u64)>,
    counts: HashMap<&'static str, u32>,
    expired: u32,
    last_event: Instant,
}

pub struct Controller {
    plan: Plan,
    st: Mutex<State>,
    cv: Condvar,
}

impl Controller {
    pub fn new(plan: Plan) -> Arc<Self> {
        let n = plan.steps.len();
        Arc::new(Controller {
            plan,
            st: Mutex::new(State { passed: vec![false; n], done: vec![false; n], log: vec![], counts: HashMap::new(), expired: 0, last_event: Instant::now() }),
            cv: Condvar::new(),
        })
    }

    pub fn on_event(&self, site: &'static str, a: u64, b: u64) {
        let key = Key { site, a, b };
        let mut delay = None;
        {
            let mut st = self.st.lock().unwrap();
            st.last_event = Instant::now();
            let occ = {
                let c = st.counts.entry(site).or_insert(0);
                let o = *c;
                *c += 1;
                o
            };
            for (s, o, us) in &self.plan.delays {
                if *s == site && *o == occ {
                    delay = Some(*us);
                }
            }
            // done markers first
            for (i, step) in self.plan.steps.iter().enumerate() {
                if !st.done[i] && st.passed[i] && step.done.as_ref() == Some(&key) {
                    st.done[i] = true;
                    self.cv.notify_all();
                    break;
                }
            }
            // gate
            let idx = self.plan.steps.iter().enumerate().position(|(i, step)| !st.passed[i] && step.gate == key);
            if let Some(i) = idx {
                let deadline = Instant::now() + Duration::from_millis(self.plan.gate_timeout_ms.max(1));
                loop {
                    if st.done[..i].iter().all(|d| *d) {
                        break;
                    }
                    let now = Instant::now();
                    if now >= deadline {
                        st.expired += 1;
                        break;
                    }
                    let (g, _) = self.cv.wait_timeout(st, deadline - now).unwrap();
                    st = g;
                }
                st.passed[i] = true;
                if self.plan.steps[i].done.is_none() {
                    st.done[i] = true;
                }
                self.cv.notify_all();
            }
            st.log.push((site, a, b));
        }
        if let Some(us) = delay {
            std::thread::sleep(Duration::from_micros(us as u64));
        }
    }

    pub fn log(&self) -> Vec<(&'static str, u64, u64)> {
        self.st.lock().unwrap().log.clone()
    }

    pub fn expired(&self) -> u32 {
        self.st.lock().unwrap().expired
    }

    pub fn all_done(&self) -> bool {
        self.st.lock().unwrap().done.iter().all(|d| *d)
    }

    pub fn idle_for(&self) -> Duration {
        self.st.lock().unwrap().last_event.elapsed()
    }
}

/// Installs the controller as the global hook callback for the lifetime of the guard.
pub struct Installed {
    pub ctl: Arc<Controller>,
}

pub fn install(plan: Plan) -> Installed {
    let ctl = Controller::new(plan);
    let c2 = ctl.clone();
    similari::verif_hooks::set_callback(Some(Arc::new(move |site, a, b| c2.on_event(site, a, b))));
    Installed { ctl }
}

impl Drop for Installed {
    fn drop(&mut self) {
        similari::verif_hooks::set_callback(None);
    }
}

/// Interleaving of `queues` FIFO queues (queue q holds `lens[q]` items) chosen by a vector of
/// 16-bit choices mapped monotonically onto the enabled queues. Returns the queue index of
/// every step.
pub fn interleave(lens: &[usize], choices: &[u16]) -> Vec<usize> {
    let mut rem: Vec<usize> = lens.to_vec();
    let total: usize = lens.iter().sum();
    let mut out = Vec::with_capacity(total);
    for k in 0..total {
        let enabled: Vec<usize> = (0..rem.len()).filter(|q| rem[*q] > 0).collect();
        let c = choices.get(k).copied().unwrap_or(0) as usize;
        let q = enabled[(c * enabled.len()) >> 16];
        rem[q] -= 1;
        out.push(q);
    }
    out
}

/// All interleavings of FIFO queues with the given lengths.
pub fn all_interleavings(lens: &[usize]) -> Vec<Vec<usize>> {
    fn rec(rem: &mut Vec<usize>, cur: &mut Vec<usize>, out: &mut Vec<Vec<usize>>) {
        if rem.iter().all(|r| *r == 0) {
            out.push(cur.clone());
            return;
        }
        for q in 0..rem.len() {
            if rem[q] > 0 {
                rem[q] -= 1;
                cur.push(q);
                rec(rem, cur, out);
                cur.pop();
                rem[q] += 1;
            }
        }
    }
    let mut out = vec![];
    rec(&mut lens.to_vec(), &mut vec![], &mut out);
    out
}

pub const KIND_DISTANCES: u64 = 2;

pub fn cmd_arg(shard: usize, kind: u64) -> u64 {
    shard as u64 | (kind << 32)
}
