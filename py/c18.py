#!/usr/bin/env python3
"""C18: Python bindings vs the Rust API they wrap.

Hypothesis generates API scripts (JSON); each script is executed through the `similari` Python
module built from the current tree and through the Rust driver (`check C18 --child pydriver`,
JSON lines), and the two traces are compared field by field (floats exactly: every value is
f32-representable). Omitted optional arguments are filled in by the driver from the table of
documented defaults, so a changed default or a getter wired to the wrong field is a trace
difference. A failing script is shrunk by Hypothesis and written as replay.
"""
import argparse, json, math, os, struct, subprocess, sys, hashlib, time

ap = argparse.ArgumentParser()
ap.add_argument("--so-dir", required=True)
ap.add_argument("--driver", required=True)
ap.add_argument("--seed", type=int, default=0)
ap.add_argument("--count", type=int, default=200)
ap.add_argument("--out", required=True)
ap.add_argument("--replay", default=None)
args = ap.parse_args()

sys.path.insert(0, args.so_dir)
import similari as S  # noqa: E402
from hypothesis import given, settings, seed, strategies as st, HealthCheck, Phase  # noqa: E402


def f32(x):
    return struct.unpack("f", struct.pack("f", x))[0]


# ------------------------------------------------------------------------------------------------
# strategies

def fl(lo, hi):
    return st.floats(min_value=f32(lo), max_value=f32(hi), allow_nan=False, allow_infinity=False, width=32)


angle = st.one_of(st.none(), st.just(0.0), fl(-3.2, 3.2), fl(6.3, 20.0))
conf_ok = st.one_of(st.just(1.0), fl(0.0, 1.0))
conf_any = st.one_of(conf_ok, conf_ok, conf_ok, fl(1.01, 2.0), fl(-1.0, -0.01))


@st.composite
def ubox_ctor(draw, valid_conf=True):
    kind = draw(st.sampled_from(["new", "new_with_confidence", "ltwh", "ltwh_with_confidence"]))
    c = draw(conf_ok if valid_conf else conf_any)
    if kind in ("new", "new_with_confidence"):
        return {"ctor": kind, "xc": draw(fl(-500, 500)), "yc": draw(fl(-500, 500)), "angle": draw(angle), "aspect": draw(fl(0.2, 4.0)), "height": draw(fl(2.0, 200.0)), "confidence": c}
    return {"ctor": kind, "left": draw(fl(-500, 500)), "top": draw(fl(-500, 500)), "width": draw(fl(2.0, 200.0)), "height": draw(fl(2.0, 200.0)), "confidence": c}


@st.composite
def sec_bbox(draw):
    ctor = draw(st.sampled_from(["new", "new_with_confidence"]))
    d = {"kind": "bbox", "ctor": ctor, "left": draw(fl(-500, 500)), "top": draw(fl(-500, 500)), "width": draw(fl(0.5, 300)), "height": draw(fl(0.5, 300)), "confidence": draw(conf_any)}
    d["sets"] = draw(st.lists(st.tuples(st.sampled_from(["left", "top", "width", "height", "confidence"]), fl(0.01, 400)), max_size=4))
    return d


@st.composite
def sec_ubox(draw):
    d = {"kind": "ubox", "box": draw(ubox_ctor(valid_conf=False))}
    d["edits"] = draw(st.lists(st.one_of(
        st.tuples(st.just("xc"), fl(-500, 500)), st.tuples(st.just("yc"), fl(-500, 500)),
        st.tuples(st.just("angle"), angle), st.tuples(st.just("aspect"), fl(0.2, 4.0)),
        st.tuples(st.just("height"), fl(2.0, 200.0)), st.tuples(st.just("confidence"), conf_any),
        st.tuples(st.just("rotate"), fl(-3.2, 3.2)), st.tuples(st.just("gen_vertices"), st.none()), st.tuples(st.just("gen_vertices"), st.none()),
        # (the orientation taken away again: the box is axis-aligned afterwards)
        st.tuples(st.just("angle"), st.none())), max_size=6))
    return d


@st.composite
def sec_geom(draw):
    a = draw(ubox_ctor())
    b = draw(ubox_ctor())
    mode = draw(st.integers(0, 3))
    if mode > 0:
        # overlapping pair: b near a (mode 3: same orientation, different centre)
        ax, ay = (a["xc"], a["yc"]) if "xc" in a else (a["left"] + a["width"] / 2, a["top"] + a["height"] / 2)
        nx, ny = f32(ax + draw(fl(-1, 1)) * a["height"]), f32(ay + draw(fl(-1, 1)) * a["height"])
        if "xc" in b:
            b["xc"], b["yc"] = nx, ny
            if mode == 3 and "angle" in a:
                b["angle"] = a["angle"]
        else:
            b["left"], b["top"] = f32(nx - b["width"] / 2), f32(ny - b["height"] / 2)
    return {"kind": "geom", "a": a, "b": b}


@st.composite
def sec_nms(draw):
    n = draw(st.integers(0, 8))
    # pixels, or coordinates normalised to the image (box heights then lie inside the score range)
    unit = draw(st.sampled_from([1.0, 0.01]))
    cx, cy = draw(fl(-200, 200)), draw(fl(-200, 200))
    dets = []
    for _ in range(n):
        dets.append({"box": {"ctor": "new", "xc": f32(unit * (cx + draw(fl(-30, 30)))), "yc": f32(unit * (cy + draw(fl(-30, 30)))), "angle": draw(st.one_of(st.none(), fl(-1.0, 1.0))), "aspect": draw(fl(0.5, 2.0)), "height": f32(unit * draw(fl(10, 60))), "confidence": 1.0},
                     "score": draw(st.one_of(st.none(), st.none(), fl(0.05, 0.95), st.sampled_from([0.0, -0.5, -2.0])))})
    # (with normalised coordinates the score threshold is mostly given and lies among the box heights)
    thr = st.one_of(st.none(), fl(0.0, 0.9)) if unit == 1.0 else st.one_of(st.none(), fl(0.1, 0.7), fl(0.1, 0.7), fl(0.1, 0.7))
    return {"kind": "nms", "dets": dets, "nms_threshold": draw(fl(0.1, 0.9)), "score_threshold": draw(thr)}


kf_weights = st.one_of(st.none(), st.tuples(fl(0.01, 0.3), fl(0.001, 0.03)))


@st.composite
def sec_kf_box(draw):
    steps = draw(st.lists(st.one_of(
        st.tuples(st.just("predict")), st.tuples(st.just("update"), fl(-3, 3), fl(-3, 3), fl(0.95, 1.05)),
        st.tuples(st.just("distance"), fl(-20, 20), fl(-20, 20)), st.tuples(st.just("cost"), fl(0, 30), st.booleans())), max_size=12))
    return {"kind": "kf_box", "weights": draw(kf_weights), "init": {"ctor": "new", "xc": draw(fl(10, 900)), "yc": draw(fl(10, 900)), "angle": draw(angle), "aspect": draw(fl(0.3, 3.0)), "height": draw(fl(5, 100)), "confidence": 1.0}, "steps": [list(s) for s in steps]}


@st.composite
def sec_kf_point(draw):
    n = draw(st.integers(1, 3))
    steps = draw(st.lists(st.one_of(
        st.tuples(st.just("predict")), st.tuples(st.just("update"), fl(-1, 1), fl(-1, 1)),
        st.tuples(st.just("distance"), fl(-1, 1), fl(-1, 1)), st.tuples(st.just("cost"), fl(0, 30), st.booleans())), max_size=12))
    return {"kind": "kf_point", "vec": draw(st.booleans()), "weights": draw(kf_weights), "points": [[draw(fl(1, 900)), draw(fl(1, 900))] for _ in range(n)], "steps": [list(s) for s in steps]}


@st.composite
def sec_constraints(draw):
    batches = draw(st.lists(st.lists(st.tuples(st.integers(0, 8), st.sampled_from([0.25, 0.5, 1.0, 2.0, 4.0])), min_size=0, max_size=4), min_size=0, max_size=3))
    probes = draw(st.lists(st.tuples(st.integers(0, 10), st.sampled_from([0.0, 0.25, 0.3, 0.5, 0.75, 1.0, 1.5, 2.0, 3.0, 4.0, 9.0])), max_size=8))
    return {"kind": "constraints", "batches": [[list(x) for x in b] for b in batches], "probes": [list(p) for p in probes]}


@st.composite
def tracker_ops(draw, visual, batch, nobj, scenes, occluder=False):
    # well separated objects: unambiguous (tie-free) associations
    ops = []
    nsteps = draw(st.integers(1, 14))
    t = {s: 0 for s in scenes}
    probe = draw(st.integers(0, 2)) == 0
    if probe:
        # expiry probe: feed one frame, let exactly n epochs pass, then ask / continue
        def frame(tt):
            dets = []
            for o in range(nobj):
                d = {"box": {"ctor": "new_with_confidence", "xc": f32(100.0 + 250.0 * o + 2.0 * tt), "yc": f32(100.0 + 40.0 * (o % 2)), "angle": None, "aspect": f32(0.8 + 0.1 * o), "height": f32(50.0 + o), "confidence": 1.0}, "custom": o}
                if visual:
                    d["feature"] = [f32(math.cos(o * 1.3 + k)) for k in range(4)]
                    d["quality"] = 0.9
                dets.append(d)
            return dets
        n = draw(st.integers(1, 7))
        k = draw(st.integers(1, 4))
        for tt in range(1, k + 1):
            ops.append({"op": "predict", "scene": 0, "default_scene": False, "dets": frame(3 * tt)})
        # (the default-scene twin of skip is a separate wrapper: it has to collect expired tracks too)
        ops.append({"op": "skip", "scene": 0, "n": n, "default_scene": draw(st.booleans())})
        # (expired tracks that left the live store but were not handed out yet are not "stored tracks")
        ops.append({"op": "stats"})
        tail = draw(st.sampled_from(["wasted", "predict", "idle", "stats", "clear"]))
        if tail == "predict":
            ops.append({"op": "predict", "scene": 0, "default_scene": False, "dets": frame(3 * k + 1)})
        elif tail == "idle":
            ops.append({"op": "idle", "scene": 0, "default_scene": False})
        elif tail == "stats":
            ops.append({"op": "stats"})
        elif tail == "clear":
            ops.append({"op": "clear_wasted"})
        ops.append({"op": "wasted"})
        ops.append({"op": "stats"})
        ops.append({"op": "epoch", "scene": 0, "default_scene": False})
        return ops
    if len(scenes) > 1 and draw(st.integers(0, 3)) == 0:
        # scene probe: every scene gets its objects, then some scenes lose some of them (idle tracks,
        # different epochs per scene), then every per-scene query is asked for every scene
        def frame(sc, tt, keep):
            dets = []
            for o in range(nobj):
                if o not in keep:
                    continue
                d = {"box": {"ctor": "new_with_confidence", "xc": f32(100.0 + 250.0 * o + 2.0 * tt), "yc": f32(100.0 + 40.0 * (o % 2)), "angle": None, "aspect": f32(0.8 + 0.1 * o), "height": f32(50.0 + o), "confidence": 1.0}, "custom": 10 * (sc % 7) + o}
                if visual:
                    d["feature"] = [f32(math.cos(o * 1.3 + k)) for k in range(4)]
                    d["quality"] = 0.9
                dets.append(d)
            return dets
        everything = list(range(nobj))
        for sc in scenes:
            for tt in range(1, draw(st.integers(1, 3)) + 1):
                t[sc] += 1
                ops.append({"op": "predict", "scene": sc, "default_scene": False, "dets": frame(sc, t[sc], everything)})
        for sc in scenes:
            if draw(st.booleans()):
                keep = [o for o in everything if draw(st.booleans())]
                if batch and not keep:
                    continue
                t[sc] += 1
                ops.append({"op": "predict", "scene": sc, "default_scene": False, "dets": frame(sc, t[sc], keep)})
            if draw(st.integers(0, 3)) == 0:
                ops.append({"op": "skip", "scene": sc, "n": draw(st.integers(1, 3)), "default_scene": False})
        for sc in scenes:
            ops.append({"op": "idle", "scene": sc, "default_scene": False})
            ops.append({"op": "epoch", "scene": sc, "default_scene": False})
        if not batch:
            ops.append({"op": "idle", "scene": 0, "default_scene": True})
        ops.append({"op": "epoch", "scene": 0, "default_scene": True})
        ops.append({"op": "stats"})
        ops.append({"op": "wasted"})
        return ops
    for _ in range(nsteps):
        kind = draw(st.sampled_from(["predict"] * 6 + ["skip", "skip", "epoch", "wasted", "wasted", "idle", "clear_wasted", "stats"] + (["predict_multi"] * 3 if batch and len(scenes) > 1 else []) + (["predict_pipelined"] * 2 if batch else [])))
        scene = draw(st.sampled_from(scenes))
        if kind == "predict_multi":
            # one request with several scenes
            parts = []
            for sc in scenes:
                if draw(st.booleans()) or not parts:
                    t[sc] += 1
                    dets = []
                    for o in range(nobj):
                        x = f32(100.0 + 250.0 * o + 2.0 * t[sc] + draw(fl(-2, 2)))
                        y = f32(100.0 + 40.0 * (o % 2) + draw(fl(-2, 2)))
                        d = {"box": {"ctor": "new_with_confidence", "xc": x, "yc": y, "angle": None, "aspect": f32(0.8 + 0.1 * o), "height": f32(50.0 + o), "confidence": 1.0}, "custom": draw(st.one_of(st.none(), st.integers(0, 99)))}
                        if visual:
                            d["feature"] = [f32(math.cos(o * 1.3 + k)) for k in range(4)]
                            d["quality"] = draw(st.one_of(st.none(), fl(0.1, 1.0)))
                        dets.append(d)
                    parts.append({"scene": sc, "dets": dets})
            ops.append({"op": "predict_multi", "parts": parts})
            continue
        if kind == "predict_pipelined":
            # two single-scene batches submitted back to back, results collected afterwards
            frames = []
            for _ in range(2):
                t[scene] += 1
                dets = []
                for o in range(nobj):
                    d = {"box": {"ctor": "new_with_confidence", "xc": f32(100.0 + 250.0 * o + 2.0 * t[scene]), "yc": f32(100.0 + 40.0 * (o % 2)), "angle": None, "aspect": f32(0.8 + 0.1 * o), "height": f32(50.0 + o), "confidence": 1.0}, "custom": o}
                    if visual:
                        d["feature"] = [f32(math.cos(o * 1.3 + k)) for k in range(4)]
                        d["quality"] = 0.9
                    dets.append(d)
                    if visual and occluder and o == 0:
                        dets.append({"box": {"ctor": "new_with_confidence", "xc": f32(d["box"]["xc"] + 13.37), "yc": f32(d["box"]["yc"] + 9.21), "angle": None, "aspect": f32(1.1), "height": f32(41.3), "confidence": 1.0},
                                     "custom": 77, "feature": [f32(math.cos(7.7 + k)) for k in range(4)], "quality": 0.9})
                frames.append(dets)
            ops.append({"op": "predict_pipelined", "scene": scene, "frames": frames})
            continue
        if kind == "predict":
            t[scene] += 1
            dets = []
            for o in range(nobj):
                if draw(st.integers(0, 9)) == 0:
                    continue
                x = f32(100.0 + 250.0 * o + 2.0 * t[scene] + draw(fl(-2, 2)))
                y = f32(100.0 + 40.0 * (o % 2) + draw(fl(-2, 2)))
                d = {"box": {"ctor": "new_with_confidence", "xc": x, "yc": y, "angle": (None if o % 3 else f32(0.2 + 0.01 * t[scene])), "aspect": f32(0.8 + 0.1 * o), "height": f32(50.0 + o), "confidence": draw(st.sampled_from([1.0, 0.9, 0.5]))},
                     "custom": draw(st.one_of(st.none(), st.integers(-5, 1000)))}
                if visual:
                    d["feature"] = draw(st.one_of(st.none(), st.just([f32(math.cos(o * 1.3 + k) + 0.01 * draw(st.integers(0, 3))) for k in range(4)])))
                    d["quality"] = draw(st.one_of(st.none(), fl(0.1, 1.0)))
                dets.append(d)
                if visual and occluder and o == 0:
                    # a second object partly in front of object 0 (general position: object 0 is rotated,
                    # the occluder axis-aligned, offsets fixed): object 0 owns only part of its area
                    dets.append({"box": {"ctor": "new_with_confidence", "xc": f32(x + 13.37), "yc": f32(y + 9.21), "angle": None, "aspect": f32(1.1), "height": f32(41.3), "confidence": 1.0},
                                 "custom": 77, "feature": [f32(math.cos(7.7 + k)) for k in range(4)], "quality": 0.9})
            # the order in which known objects are listed changes from frame to frame
            dets = list(draw(st.permutations(dets)))
            ops.append({"op": "predict", "scene": scene, "default_scene": (scene == 0 and not batch and draw(st.booleans())), "dets": dets})
        elif kind == "skip":
            # expiry boundaries: gaps around the documented default idle limits (2 and 5)
            ops.append({"op": "skip", "scene": scene, "n": draw(st.integers(1, 7)), "default_scene": (scene == 0 and draw(st.booleans()))})
            if draw(st.booleans()):
                ops.append({"op": "stats"})
        elif kind == "epoch":
            ops.append({"op": "epoch", "scene": scene, "default_scene": (scene == 0 and draw(st.booleans()))})
        elif kind == "idle":
            ops.append({"op": "idle", "scene": scene, "default_scene": (scene == 0 and not batch and draw(st.booleans()))})
        else:
            ops.append({"op": kind})
    return ops


CONSTRAINT_TABLES = st.sampled_from([[[1, 1.0], [3, 2.0]], [[1, 0.05], [5, 0.05]], [[1, 0.02], [2, 0.3]], [[2, 0.1]], [[1, 0.03], [1, 5.0], [4, 0.06]]])


@st.composite
def sec_sort(draw):
    batch = draw(st.booleans())
    # each optional constructor argument is either given or omitted (-> documented default)
    a = {}
    if draw(st.booleans()):
        a["shards"] = draw(st.integers(1, 3))
    if batch and draw(st.booleans()):
        a["voting_shards"] = draw(st.integers(1, 3))
    if draw(st.booleans()):
        a["bbox_history"] = draw(st.integers(1, 4))
    if draw(st.booleans()):
        a["max_idle_epochs"] = draw(st.integers(0, 3))
    if draw(st.booleans()):
        a["method"] = draw(st.one_of(st.just("maha"), st.tuples(st.just("iou"), fl(0.1, 0.6)).map(list)))
    if draw(st.booleans()):
        a["min_confidence"] = draw(fl(0.01, 0.6))
    if draw(st.booleans()):
        # (loose table, and tables that bind for objects moving a few pixels per frame)
        a["constraints"] = draw(CONSTRAINT_TABLES)
    if draw(st.booleans()):
        a["kalman_position_weight"] = draw(fl(0.02, 0.1))
    if draw(st.booleans()):
        a["kalman_velocity_weight"] = draw(fl(0.003, 0.02))
    scenes = draw(st.sampled_from([[0], [0, 3], [0, 3, 11]]))
    nobj = draw(st.integers(1, 3))
    return {"kind": "batch_sort" if batch else "sort", "args": a, "ops": draw(tracker_ops(False, batch, nobj, scenes))}


@st.composite
def sec_visual(draw):
    batch = draw(st.booleans())
    o = {}
    def maybe(name, strat):
        if draw(st.booleans()):
            o[name] = draw(strat)
    maybe("max_idle_epochs", st.integers(0, 3))
    maybe("kept_history_length", st.integers(1, 4))
    maybe("visual_min_votes", st.integers(1, 2))
    maybe("visual_metric", st.one_of(st.tuples(st.just("euclidean"), fl(0.2, 2.0)).map(list), st.tuples(st.just("cosine"), fl(0.5, 0.99)).map(list)))
    maybe("positional_metric", st.one_of(st.just("maha"), st.tuples(st.just("iou"), fl(0.1, 0.6)).map(list)))
    maybe("visual_max_observations", st.integers(3, 5))
    maybe("visual_minimal_track_length", st.integers(1, 3))
    maybe("visual_minimal_area", fl(0.0, 3000.0))
    maybe("visual_minimal_quality_use", fl(0.0, 0.6))
    maybe("visual_minimal_quality_collect", fl(0.0, 0.6))
    maybe("visual_minimal_own_area_percentage_use", fl(0.0, 0.95))
    maybe("visual_minimal_own_area_percentage_collect", fl(0.0, 0.95))
    occluder = draw(st.booleans())
    maybe("positional_min_confidence", fl(0.05, 0.6))
    maybe("kalman_position_weight", fl(0.02, 0.1))
    maybe("kalman_velocity_weight", fl(0.003, 0.02))
    maybe("constraints", CONSTRAINT_TABLES)
    scenes = draw(st.sampled_from([[0], [0, 3]]))
    nobj = draw(st.integers(1, 3))
    return {"kind": "batch_visual" if batch else "visual", "shards": draw(st.integers(1, 3)), "voting_shards": draw(st.integers(1, 2)), "opts": o, "ops": draw(tracker_ops(True, batch, nobj, scenes, occluder))}


section = st.one_of(sec_bbox(), sec_ubox(), sec_geom(), sec_nms(), sec_kf_box(), sec_kf_point(), sec_constraints(), sec_sort(), sec_sort(), sec_visual(), sec_visual())
script = st.lists(section, min_size=1, max_size=4).map(lambda s: {"sections": s})

# ------------------------------------------------------------------------------------------------
# Python executor


class Err(Exception):
    pass


def guard(f):
    try:
        return f()
    except BaseException as e:  # PanicException derives from BaseException
        if isinstance(e, (KeyboardInterrupt, SystemExit)):
            raise
        return {"error": True}


def mk_ubox(b):
    c = b["ctor"]
    if c == "new":
        return S.Universal2DBox(b["xc"], b["yc"], b["angle"], b["aspect"], b["height"])
    if c == "new_with_confidence":
        return S.Universal2DBox.new_with_confidence(b["xc"], b["yc"], b["angle"], b["aspect"], b["height"], b["confidence"])
    if c == "ltwh":
        return S.Universal2DBox.ltwh(b["left"], b["top"], b["width"], b["height"])
    return S.Universal2DBox.ltwh_with_confidence(b["left"], b["top"], b["width"], b["height"], b["confidence"])


def ubox_trace(u):
    return [u.xc, u.yc, u.angle, u.aspect, u.height, u.confidence]


def bbox_trace(b):
    return [b.left, b.top, b.width, b.height, b.confidence]


def track_trace(t):
    return {"id": t.id, "epoch": t.epoch, "scene": t.scene_id, "length": t.length, "custom": t.custom_object_id, "observed": ubox_trace(t.observed_bbox), "predicted": ubox_trace(t.predicted_bbox), "voting": repr(t.voting_type)}


def wasted_trace(w, visual):
    d = {"id": w.id, "epoch": w.epoch, "scene": w.scene_id, "length": w.length, "observed": ubox_trace(w.observed_bbox), "predicted": ubox_trace(w.predicted_bbox),
         "observed_boxes": [ubox_trace(x) for x in w.observed_boxes], "predicted_boxes": [ubox_trace(x) for x in w.predicted_boxes]}
    if visual:
        d["observed_features"] = w.observed_features
    return d


def run_section(s):
    k = s["kind"]
    if k == "bbox":
        def f():
            b = S.BoundingBox(s["left"], s["top"], s["width"], s["height"]) if s["ctor"] == "new" else S.BoundingBox.new_with_confidence(s["left"], s["top"], s["width"], s["height"], s["confidence"])
            for name, v in s["sets"]:
                setattr(b, name, v)
            return {"bbox": bbox_trace(b), "xyaah": ubox_trace(b.as_xyaah())}
        return guard(f)
    if k == "ubox":
        def f():
            u = mk_ubox(s["box"])
            tr = []
            for name, v in s["edits"]:
                if name == "rotate":
                    u.rotate(v)
                elif name == "gen_vertices":
                    u.gen_vertices()
                elif name == "confidence":
                    r = guard(lambda: setattr(u, "confidence", v))
                    tr.append("confidence-rejected" if isinstance(r, dict) else "ok")
                else:
                    setattr(u, name, v)
                tr.append([list(p) for p in u.get_vertices().get_points()])
            ltwh = guard(lambda: bbox_trace(u.as_ltwh()))
            return {"ubox": ubox_trace(u), "radius": u.get_radius(), "area": u.area(), "ltwh": ltwh, "vertices": [list(p) for p in u.get_vertices().get_points()], "edits": tr}
        return guard(f)
    if k == "geom":
        def f():
            a, b = mk_ubox(s["a"]), mk_ubox(s["b"])
            return {"clip": [list(p) for p in S.sutherland_hodgman_clip(a, b).get_points()], "area": S.intersection_area(a, b)}
        return guard(f)
    if k == "nms":
        def f():
            dets = [(mk_ubox(d["box"]), d["score"]) for d in s["dets"]]
            return [ubox_trace(u) for u in S.nms(dets, s["nms_threshold"], s["score_threshold"])]
        return guard(f)
    if k == "kf_box":
        def f():
            kf = S.Universal2DBoxKalmanFilter() if s["weights"] is None else S.Universal2DBoxKalmanFilter(s["weights"][0], s["weights"][1])
            cur = mk_ubox(s["init"])
            state = kf.initiate(cur)
            tr = [ubox_trace(state.universal_bbox())]
            for stp in s["steps"]:
                if stp[0] == "predict":
                    state = kf.predict(state)
                    tr.append(ubox_trace(state.universal_bbox()))
                elif stp[0] == "update":
                    cur = S.Universal2DBox(f32(cur.xc + stp[1]), f32(cur.yc + stp[2]), cur.angle, cur.aspect, f32(cur.height * stp[3]))
                    state = kf.update(state, cur)
                    tr.append(ubox_trace(state.universal_bbox()))
                    tr.append(guard(lambda: bbox_trace(state.bbox())))
                elif stp[0] == "distance":
                    z = S.Universal2DBox(f32(cur.xc + stp[1]), f32(cur.yc + stp[2]), cur.angle, cur.aspect, cur.height)
                    tr.append(kf.distance(state, z))
                else:
                    tr.append(S.Universal2DBoxKalmanFilter.calculate_cost(stp[1], stp[2]))
            return tr
        return guard(f)
    if k == "kf_point":
        def f():
            w = s["weights"]
            pts = [tuple(p) for p in s["points"]]
            tr = []
            if s["vec"]:
                kf = S.Vec2DKalmanFilter() if w is None else S.Vec2DKalmanFilter(w[0], w[1])
                state = kf.initiate(pts)
                cur = list(pts)
                for stp in s["steps"]:
                    if stp[0] == "predict":
                        state = kf.predict(state)
                    elif stp[0] == "update":
                        cur = [(f32(x + stp[1]), f32(y + stp[2])) for (x, y) in cur]
                        state = kf.update(state, cur)
                    elif stp[0] == "distance":
                        tr.append(kf.distance(state, [(f32(x + stp[1]), f32(y + stp[2])) for (x, y) in cur]))
                    else:
                        tr.append(S.Vec2DKalmanFilter.calculate_cost([stp[1], f32(stp[1] / 2)], stp[2]))
                    tr.append([[p.x(), p.y()] for p in state])
            else:
                kf = S.Point2DKalmanFilter() if w is None else S.Point2DKalmanFilter(w[0], w[1])
                (x, y) = pts[0]
                state = kf.initiate(x, y)
                for stp in s["steps"]:
                    if stp[0] == "predict":
                        state = kf.predict(state)
                    elif stp[0] == "update":
                        x, y = f32(x + stp[1]), f32(y + stp[2])
                        state = kf.update(state, x, y)
                    elif stp[0] == "distance":
                        tr.append(kf.distance(state, f32(x + stp[1]), f32(y + stp[2])))
                    else:
                        tr.append(S.Point2DKalmanFilter.calculate_cost(stp[1], stp[2]))
                    tr.append([state.x(), state.y()])
            return tr
        return guard(f)
    if k == "constraints":
        def f():
            c = S.SpatioTemporalConstraints()
            for b in s["batches"]:
                c.add_constraints([tuple(x) for x in b])
            return [c.validate(g, d) for g, d in s["probes"]]
        return guard(f)
    if k in ("sort", "batch_sort", "visual", "batch_visual"):
        return guard(lambda: run_tracker(s))
    raise ValueError(k)


def method_of(m):
    if m == "maha":
        return S.PositionalMetricType.maha()
    return S.PositionalMetricType.iou(m[1])


def constraints_of(c):
    x = S.SpatioTemporalConstraints()
    x.add_constraints([tuple(e) for e in c])
    return x


def order_key(x):
    # independent of the raw ids (schedule dependent for the batch trackers)
    return (x["scene"], x["epoch"], x["length"], x["observed"][0], x["observed"][1])


def run_tracker(s):
    k = s["kind"]
    visual = k in ("visual", "batch_visual")
    batch = k.startswith("batch")
    if not visual:
        a = dict(s["args"])
        kw = {}
        for name in ("bbox_history", "max_idle_epochs", "min_confidence", "kalman_position_weight", "kalman_velocity_weight"):
            if name in a:
                kw[name] = a[name]
        if "method" in a:
            kw["method"] = method_of(a["method"])
        if "constraints" in a:
            kw["spatio_temporal_constraints"] = constraints_of(a["constraints"])
        if batch:
            if "shards" in a:
                kw["distance_shards"] = a["shards"]
            if "voting_shards" in a:
                kw["voting_shards"] = a["voting_shards"]
            tr = S.BatchSort(**kw)
        else:
            if "shards" in a:
                kw["shards"] = a["shards"]
            tr = S.Sort(**kw)
    else:
        o = S.VisualSortOptions()
        for name, v in s["opts"].items():
            if name == "visual_metric":
                o.visual_metric(S.VisualSortMetricType.euclidean(v[1]) if v[0] == "euclidean" else S.VisualSortMetricType.cosine(v[1]))
            elif name == "positional_metric":
                o.positional_metric(method_of(v))
            elif name == "constraints":
                o.spatio_temporal_constraints(constraints_of(v))
            else:
                getattr(o, name)(v)
        tr = S.BatchVisualSort(s["shards"], s["voting_shards"], o) if batch else S.VisualSort(s["shards"], o)
    out = []
    for op in s["ops"]:
        n = op["op"]
        if n == "predict":
            if not op["dets"] and batch:
                out.append([])
                continue
            if not visual:
                boxes = [(mk_ubox(d["box"]), d["custom"]) for d in op["dets"]]
                if batch:
                    req = S.SortPredictionBatchRequest()
                    for (b, c) in boxes:
                        req.add(op["scene"], b, c)
                    res = tr.predict(req)
                    got = [res.get() for _ in range(res.batch_size())]
                    out.append(sorted([[sc, [track_trace(t) for t in ts]] for (sc, ts) in got], key=lambda x: x[0]))
                else:
                    ts = tr.predict(boxes) if op["default_scene"] else tr.predict_with_scene(op["scene"], boxes)
                    out.append([track_trace(t) for t in ts])
            else:
                obs = [S.VisualSortObservation(d.get("feature"), d.get("quality"), mk_ubox(d["box"]), d["custom"]) for d in op["dets"]]
                if batch:
                    req = S.VisualSortPredictionBatchRequest()
                    for ob in obs:
                        req.add(op["scene"], ob)
                    res = tr.predict(req)
                    got = [res.get() for _ in range(res.batch_size())]
                    out.append(sorted([[sc, [track_trace(t) for t in ts]] for (sc, ts) in got], key=lambda x: x[0]))
                else:
                    oset = S.VisualSortObservationSet()
                    for ob in obs:
                        oset.add(ob)
                    ts = tr.predict(oset) if op["default_scene"] else tr.predict_with_scene(op["scene"], oset)
                    out.append([track_trace(t) for t in ts])
        elif n == "predict_multi":
            req = S.VisualSortPredictionBatchRequest() if visual else S.SortPredictionBatchRequest()
            for part in op["parts"]:
                for d in part["dets"]:
                    if visual:
                        req.add(part["scene"], S.VisualSortObservation(d.get("feature"), d.get("quality"), mk_ubox(d["box"]), d["custom"]))
                    else:
                        req.add(part["scene"], mk_ubox(d["box"]), d["custom"])
            res = tr.predict(req)
            nres = res.batch_size()
            got = [res.get() for _ in range(nres)]
            out.append([nres, sorted([[sc, [track_trace(t) for t in ts]] for (sc, ts) in got], key=lambda x: x[0])])
        elif n == "predict_pipelined":
            ress = []
            for dets in op["frames"]:
                req = S.VisualSortPredictionBatchRequest() if visual else S.SortPredictionBatchRequest()
                for d in dets:
                    if visual:
                        req.add(op["scene"], S.VisualSortObservation(d.get("feature"), d.get("quality"), mk_ubox(d["box"]), d["custom"]))
                    else:
                        req.add(op["scene"], mk_ubox(d["box"]), d["custom"])
                ress.append(tr.predict(req))
            frames_out = []
            for res in ress:
                got = [res.get() for _ in range(res.batch_size())]
                frames_out.append(sorted([[sc, [track_trace(t) for t in ts]] for (sc, ts) in got], key=lambda x: x[0]))
            out.append(frames_out)
        elif n == "skip":
            if op["default_scene"]:
                tr.skip_epochs(op["n"])
            else:
                tr.skip_epochs_for_scene(op["scene"], op["n"])
            out.append(None)
        elif n == "epoch":
            out.append(tr.current_epoch() if op["default_scene"] else tr.current_epoch_with_scene(op["scene"]))
        elif n == "wasted":
            out.append(sorted([wasted_trace(w, visual) for w in tr.wasted()], key=order_key))
        elif n == "idle":
            if batch:
                ts = tr.idle_tracks(op["scene"])
            elif op["default_scene"]:
                ts = tr.idle_tracks()
            else:
                ts = (getattr(tr, "idle_tracks_with_scene", None) or tr.idle_tracks_with_scene_py)(op["scene"])
            out.append(sorted([track_trace(t) for t in ts], key=order_key))
        elif n == "clear_wasted":
            tr.clear_wasted()
            out.append(None)
        elif n == "stats":
            # batch trackers draw ids from one counter shared by concurrently voted scenes: which
            # ids (hence which shards) the stored tracks get is schedule dependent - only the total
            out.append(sum(tr.shard_stats()) if batch else tr.shard_stats())
    return out


def run_py(script):
    return [run_section(s) for s in script["sections"]]


# ------------------------------------------------------------------------------------------------
# Rust driver

class Driver:
    def __init__(self, exe):
        self.exe = exe
        self.start()

    def start(self):
        self.p = subprocess.Popen([self.exe, "C18", "--child", "pydriver"], stdin=subprocess.PIPE, stdout=subprocess.PIPE, text=True)

    def run(self, script):
        self.p.stdin.write(json.dumps(script) + "\n")
        self.p.stdin.flush()
        line = self.p.stdout.readline()
        if not line:
            self.start()
            return {"driver-died": True}
        return json.loads(line)


drv = Driver(args.driver)


def canon(x):
    """ints that come back as floats and tuples vs lists are not differences"""
    if isinstance(x, tuple):
        return [canon(v) for v in x]
    if isinstance(x, list):
        return [canon(v) for v in x]
    if isinstance(x, dict):
        return {k: canon(v) for k, v in x.items()}
    if isinstance(x, bool) or x is None or isinstance(x, str):
        return x
    if isinstance(x, (int, float)):
        if isinstance(x, float) and (math.isnan(x) or math.isinf(x)):
            return repr(x)
        return float(x)
    return repr(x)


def rename_ids(trace, kind):
    """batch trackers share one id counter between concurrently voted scenes: ids are compared up
    to renaming (order of first appearance in the trace)"""
    if not (isinstance(trace, list) and kind.startswith("batch")):
        return trace
    m = {}
    def walk(x):
        if isinstance(x, dict):
            if "id" in x and "length" in x:
                x = dict(x)
                x["id"] = m.setdefault(x["id"], float(len(m)))
            return {k: walk(v) for k, v in x.items()}
        if isinstance(x, list):
            return [walk(v) for v in x]
        return x
    return walk(trace)


def first_diff(a, b, path=""):
    if type(a) != type(b):
        return f"{path}: {a!r} vs {b!r}"
    if isinstance(a, dict):
        for k in sorted(set(a) | set(b)):
            if k not in a or k not in b:
                return f"{path}.{k}: missing on one side"
            d = first_diff(a[k], b[k], f"{path}.{k}")
            if d:
                return d
        return None
    if isinstance(a, list):
        if len(a) != len(b):
            return f"{path}: length {len(a)} vs {len(b)}"
        for i, (x, y) in enumerate(zip(a, b)):
            d = first_diff(x, y, f"{path}[{i}]")
            if d:
                return d
        return None
    return None if a == b else f"{path}: python {a!r} vs rust {b!r}"


stats = {"evaluations": 0, "nontrivial": set(), "labels": {}, "samples": [], "failed": False}


def nontrivial(script):
    for s in script["sections"]:
        if s["kind"] in ("bbox", "ubox"):
            return True  # touches every getter of the class
        if s["kind"] in ("sort", "batch_sort", "visual", "batch_visual"):
            preds = [o for o in s["ops"] if (o["op"] == "predict" and len(o["dets"]) >= 2) or o["op"] in ("predict_multi", "predict_pipelined")]
            if len(preds) >= 3 and any(o["op"] in ("wasted", "idle") for o in s["ops"]):
                return True
    return False


# A call that does not return cannot be interrupted from Python (the main thread may hold the GIL
# inside the extension): faulthandler's watchdog is a C thread that needs no GIL; it dumps the
# stack and ends the process. The launcher finds out from the marker file which side was running.
import faulthandler  # noqa: E402
HANG_S = float(os.environ.get("SV_C18_HANG_S", "60"))
CUR = args.out + ".current"


def mark(phase, script):
    with open(CUR, "w") as f:
        json.dump({"phase": phase, "script": script}, f)


def compare(script):
    mark("rust", script)
    faulthandler.dump_traceback_later(HANG_S, exit=True)
    rs = canon(drv.run(script))
    faulthandler.cancel_dump_traceback_later()
    mark("python", script)
    faulthandler.dump_traceback_later(HANG_S, exit=True)
    py = canon(run_py(script))
    faulthandler.cancel_dump_traceback_later()
    if isinstance(rs, dict):
        return f"driver failure: {rs}"
    if len(py) != len(rs):
        return "different number of section traces"
    for i, s in enumerate(script["sections"]):
        pa, ra = py[i], rs[i]
        if isinstance(ra, list) and ra and ra[-1] == {"ambiguous-call": True}:
            # the Rust side found a call whose outcome the library itself may decide either way
            # (decision margin below 1e-4 in the f64 shadow): compare the operations before it
            k = len(ra) - 1
            ra = ra[:k]
            pa = pa[:k] if isinstance(pa, list) else pa
            stats["labels"]["cut_at_ambiguous_call"] = stats["labels"].get("cut_at_ambiguous_call", 0) + 1
        a, b = rename_ids(pa, s["kind"]), rename_ids(ra, s["kind"])
        d = first_diff(a, b, f"section {i} ({s['kind']})")
        if d and s["kind"] in TRACKERS and rust_side_unstable(s, len(ra) if isinstance(ra, list) else None):
            stats["labels"]["rust_api_itself_unstable"] = stats["labels"].get("rust_api_itself_unstable", 0) + 1
            continue
        if d:
            return d
    return None


TRACKERS = ("sort", "batch_sort", "visual", "batch_visual")


def rust_side_unstable(sec, upto):
    """Safety net behind the margin cut: the property compares the binding with 'the' value the Rust
    API returns; when the Rust API alone, given the same section again, does not reproduce its own
    answer (up to the renaming used for the comparison), there is no such value and nothing is claimed."""
    single = {"sections": [sec]}
    def once():
        r = canon(drv.run(single))
        if not isinstance(r, list) or not r:
            return None
        t = r[0]
        if isinstance(t, list) and upto is not None:
            t = [x for x in t if x != {"ambiguous-call": True}][:upto]
        return rename_ids(t, sec["kind"])
    base = once()
    for _ in range(12):
        if first_diff(base, once(), "rust") is not None:
            return True
    return False


def one(script):
    d = compare(script)
    if not stats["failed"]:
        stats["evaluations"] += 1
        for s in script["sections"]:
            stats["labels"][s["kind"]] = stats["labels"].get(s["kind"], 0) + 1
            if s["kind"] == "ubox":
                cur = s["box"].get("angle")
                for name, v in s["edits"]:
                    if name == "angle":
                        if v is None and cur is not None:
                            stats["labels"]["ubox_angle_removed_from_oriented_box"] = stats["labels"].get("ubox_angle_removed_from_oriented_box", 0) + 1
                        cur = v
                    elif name == "rotate":
                        cur = v
            if s["kind"] == "nms" and s["score_threshold"] is not None and any(d["score"] is None and d["box"]["height"] <= s["score_threshold"] for d in s["dets"]):
                stats["labels"]["nms_unscored_box_lower_than_score_threshold"] = stats["labels"].get("nms_unscored_box_lower_than_score_threshold", 0) + 1
        for s in script["sections"]:
            if s["kind"] in TRACKERS:
                pending = False
                for o in s["ops"]:
                    if o["op"] == "skip":
                        pending = True
                    elif o["op"] in ("wasted", "clear_wasted"):
                        pending = False
                    elif o["op"] == "stats" and pending:
                        lab = "stats_after_skip_before_collect_" + s["kind"]
                        stats["labels"][lab] = stats["labels"].get(lab, 0) + 1
                        break
                c = (s.get("args") or s.get("opts") or {}).get("constraints")
                if c and c[0][1] < 0.5:
                    stats["labels"]["tight_constraints"] = stats["labels"].get("tight_constraints", 0) + 1
        if nontrivial(script):
            stats["nontrivial"].add(hashlib.sha1(json.dumps(script, sort_keys=True).encode()).hexdigest())
            if len(stats["samples"]) < 2:
                stats["samples"].append(script)
    if d:
        stats["failed"] = True
        stats["last_failing"] = script
        raise AssertionError(d)


result = {"violation": None}
t0 = time.time()
if args.replay:
    scr = json.load(open(args.replay))
    scr = scr.get("case", scr)
    d = compare(scr)
    result["violation"] = None if d is None else {"script": scr, "message": d}
    stats["evaluations"] = 1
else:
    @seed(args.seed)
    @settings(max_examples=args.count, database=None, deadline=None, suppress_health_check=list(HealthCheck), phases=[Phase.generate, Phase.shrink], report_multiple_bugs=False)
    @given(script)
    def test(s):
        one(s)
    try:
        test()
    except AssertionError as e:
        # Hypothesis re-raises for the minimal example; find it by replaying the shrunk falsifying example
        import traceback
        result["violation"] = {"message": str(e).split("\n")[0], "script": stats.get("last_failing")}
    except BaseException as e:  # noqa
        result["violation"] = {"message": "harness error: " + repr(e), "script": None, "harness": True}

result.update(evaluations=stats["evaluations"], distinct_nontrivial=len(stats["nontrivial"]), labels=stats["labels"], samples=stats["samples"], wall_s=time.time() - t0)
json.dump(result, open(args.out, "w"))
try:
    os.remove(CUR)
except OSError:
    pass
