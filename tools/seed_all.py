#!/usr/bin/env python3
"""Official detection run for every kept mutant: apply to /repo, run the quick checks, undo.
usage: seed_all.py [<ID>/<name> ...]   (default: all whose meta.json has no 'official' entry)
The properties to run are taken from meta.json['run_ids'] or default to the mutant's property."""
import json, os, subprocess, sys, time, glob
sys.path.insert(0, os.path.dirname(__file__))
from mutant import detect, ROOT
def main():
    redo = '--all' in sys.argv
    sel = [a for a in sys.argv[1:] if a != '--all']
    dirs = sorted(glob.glob(ROOT + '/seeded/*/*/'))
    for d in dirs:
        rel = '/'.join(d.rstrip('/').split('/')[-2:])
        if sel and rel not in sel: continue
        mp = os.path.join(d, 'meta.json')
        meta = json.load(open(mp))
        if not sel and not redo and 'official' in meta: continue
        pid = rel.split('/')[0]
        ids = meta.get('run_ids', [pid])
        res = detect(os.path.join(d, 'patch.diff'), ids)
        if 'error' in res:
            print(rel, 'ERROR', res['error'], flush=True)
            continue
        meta['official'] = {'at_verif_commit': subprocess.run('git -C ' + ROOT + ' log --format=%h -1', shell=True, capture_output=True, text=True).stdout.strip(), 'at_repo_commit': subprocess.run('git -C /repo log --format=%h -1', shell=True, capture_output=True, text=True).stdout.strip(), 'results': res}
        meta['detected_by'] = [k for k, v in res.items() if v['violation']]
        json.dump(meta, open(mp, 'w'), indent=1)
        print(rel, {k: ('CAUGHT' if v['violation'] else 'missed') for k, v in res.items()}, flush=True)
if __name__ == '__main__':
    main()
