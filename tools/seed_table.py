#!/usr/bin/env python3
"""Prints the markdown table of seeded changes and which checks caught them (from seeded/*/*/meta.json)."""
import json, glob, os
rows = []
for mp in sorted(glob.glob('/verif/seeded/*/*/meta.json')):
    pid, name = mp.split('/')[3:5]
    m = json.load(open(mp))
    res = m.get('official', {}).get('results', {})
    caught = [k for k, v in res.items() if v.get('violation')]
    missed = [k for k, v in res.items() if not v.get('violation')]
    summ = (m.get('summary') or '').replace('\n', ' ').replace('|', '/')
    needs = (m.get('needs') or '').replace('\n', ' ').replace('|', '/')
    rows.append((pid, name, summ[:160], needs[:140], ', '.join(caught) or '-', ', '.join(missed) or '-', m.get('note', '')))
print('| property | change | what it does | needs | caught by (quick) | not caught by | note |')
print('|---|---|---|---|---|---|---|')
for r in rows:
    print('| ' + ' | '.join(r) + ' |')
