#!/usr/bin/env python3
"""Confirm a sub-agent's mutant in its scratch worktree, then run /verif checks against it.

usage: mutant.py confirm <worktree> <mutdir>            -> prints CONFIRMED / REJECTED
       mutant.py detect  <patch.diff> <ID> [<ID>...]    -> applies to /repo, runs ./run ID quick, reverts
       mutant.py keep    <worktree> <mutdir> <ID> <name> -> copies into /verif/seeded/<ID>/<name>/
"""
import json, os, re, shutil, subprocess, sys, time

ROOT = os.path.dirname(os.path.dirname(os.path.abspath(__file__)))
ENV = dict(os.environ, CARGO_NET_OFFLINE="true", RUST_LIB_BACKTRACE="0")

def sh(cmd, cwd=None, timeout=3600):
    p = subprocess.run(cmd, shell=True, cwd=cwd, env=ENV, stdout=subprocess.PIPE, stderr=subprocess.STDOUT, text=True, timeout=timeout)
    return p.returncode, p.stdout

def confirm(wt, mut):
    patch = os.path.join(mut, "patch.diff")
    demo = os.path.join(mut, "demo.rs")
    res = {}
    sh("git checkout -- . ; rm -rf tests", cwd=wt)
    rc, out = sh(f"git apply {patch}", cwd=wt)
    if rc != 0:
        return {"ok": False, "why": "patch does not apply: " + out[-300:]}
    os.makedirs(os.path.join(wt, "tests"), exist_ok=True)
    shutil.copy(demo, os.path.join(wt, "tests", "demo.rs"))
    rc, out = sh("cargo test --offline --no-fail-fast 2>&1", cwd=wt)
    results = re.findall(r"test result: (\w+)\. (\d+) passed; (\d+) failed", out)
    res["with_patch"] = results
    unit_ok = any(r[0] == "ok" and r[1] == "81" for r in results)
    # store_tests::general_ops / baked_similarity assert 10 ms wall-clock windows and fail now and
    # then on a loaded machine, on the unchanged tree too: the unit tests are re-run (alone)
    tries = 0
    while not unit_ok and tries < 4:
        tries += 1
        rc_u, out_u = sh("cargo test --offline --lib 2>&1", cwd=wt)
        unit_ok = re.search(r"test result: ok\. 81 passed; 0 failed", out_u) is not None
        res.setdefault("unit_failures_seen", []).extend(re.findall(r"^test (\S+) \.\.\. FAILED", out_u, re.M))
    res["unit_reruns"] = tries
    demo_failed = (re.search(r"Running tests/demo.rs[^\n]*\n(?:.*\n)*?test result: FAILED", out) is not None) or re.search(r"error: test failed, to rerun pass `--test demo`", out) is not None
    compiled = "error: could not compile" not in out
    sh("git checkout -- src", cwd=wt)
    rc2, out2 = sh("cargo test --offline --test demo 2>&1", cwd=wt)
    clean_pass = rc2 == 0 and re.search(r"test result: ok\. [1-9]\d* passed; 0 failed", out2) is not None
    sh("rm -rf tests; git checkout -- .", cwd=wt)
    res.update(ok=bool(compiled and unit_ok and demo_failed and clean_pass), compiled=compiled, unit_81_pass=unit_ok, demo_fails_with_patch=demo_failed, demo_passes_clean=clean_pass)
    return res

def confirm_py(wt, mut):
    """Python-binding mutants: demo.py must fail with the patch and pass without (module rebuilt each time)."""
    patch = os.path.join(mut, "patch.diff")
    demo = os.path.join(mut, "demo.py")
    def build_and_run():
        rc, out = sh("cargo build --offline --release --lib 2>&1 && mkdir -p pymod && cp target/release/libsimilari.so pymod/similari.so", cwd=wt)
        if rc != 0:
            return None, out[-500:]
        rc, out = sh(f"PYTHONPATH={wt}/pymod RUST_BACKTRACE=0 python3-vt {demo} 2>&1", cwd=wt)
        return rc, out[-300:]
    sh("git checkout -- . ; rm -rf tests", cwd=wt)
    rc, out = sh(f"git apply {patch}", cwd=wt)
    if rc != 0:
        return {"ok": False, "why": "patch does not apply: " + out[-300:]}
    rc_t, out_t = sh("cargo test --offline --no-fail-fast 2>&1", cwd=wt)
    results = re.findall(r"test result: (\w+)\. (\d+) passed; (\d+) failed", out_t)
    unit_ok = any(r[0] == "ok" and r[1] == "81" for r in results)
    tries = 0
    while not unit_ok and tries < 4:  # timing-flaky store tests, see confirm()
        tries += 1
        rc_u, out_u = sh("cargo test --offline --lib 2>&1", cwd=wt)
        unit_ok = re.search(r"test result: ok\. 81 passed; 0 failed", out_u) is not None
    rc1, o1 = build_and_run()
    sh("git checkout -- src", cwd=wt)
    rc2, o2 = build_and_run()
    return {"ok": bool(unit_ok and rc1 not in (0, None) and rc2 == 0), "unit_81_pass": unit_ok, "demo_exit_with_patch": rc1, "demo_exit_clean": rc2, "tail": (o1 or "")[-200:]}

def detect(patch, ids):
    rc, out = sh("git status --porcelain --untracked-files=no", cwd="/repo")
    if out.strip():
        print("REFUSING: /repo has local modifications"); sys.exit(2)
    rc, out = sh(f"git apply {patch}", cwd="/repo")
    if rc != 0:
        return {"error": "patch does not apply to /repo: " + out[-300:]}
    results = {}
    try:
        for pid in ids:
            t0 = time.time()
            rc, out = sh(f"./run {pid} quick 2>&1", cwd=ROOT, timeout=3600)
            viol = [l for l in out.splitlines() if l.startswith("VIOLATION")]
            sig = [l for l in out.splitlines() if l.startswith("[sv] " + pid + " /")]
            results[pid] = {"exit": rc, "violation": bool(viol), "detail": (sig[:1] or [""])[0][:400], "wall_s": round(time.time() - t0, 1)}
    finally:
        sh("git checkout -- .", cwd="/repo")
        sh("rm -f replays/*/fail-*", cwd=ROOT)
    return results

def main():
    cmd = sys.argv[1]
    if cmd == "confirm":
        print(json.dumps(confirm(sys.argv[2], sys.argv[3]), indent=1))
    elif cmd == "confirm_py":
        print(json.dumps(confirm_py(sys.argv[2], sys.argv[3]), indent=1))
    elif cmd == "detect":
        print(json.dumps(detect(sys.argv[2], sys.argv[3:]), indent=1))
    elif cmd == "keep":
        wt, mut, pid, name = sys.argv[2:6]
        dst = f"/verif/seeded/{pid}/{name}"
        os.makedirs(dst, exist_ok=True)
        for f in ("patch.diff", "demo.rs", "demo.py", "meta.json"):
            if os.path.exists(os.path.join(mut, f)):
                shutil.copy(os.path.join(mut, f), os.path.join(dst, f))
        print("kept", dst)


def detect_scratch(wt, patch, ids, tier="quick"):
    """Screen a mutant without touching /repo: a copy of the harness is built against the
    scratch worktree `wt` (patch applied there) with its own target dir and a scratch verif dir."""
    tag = os.path.basename(wt.rstrip("/"))
    hdir = f"/tmp/mh-{tag}"
    vdir = f"/tmp/mv-{tag}"
    sh(f"rm -rf {hdir} {vdir}; mkdir -p {vdir}; cp -r /verif/harness {hdir}; cp /verif/KNOWN_FINDINGS.txt {vdir}/; cp -r /verif/replays {vdir}/replays; cp -r /verif/py {vdir}/py; rm -f {vdir}/replays/*/fail-*")
    ct = open(f"{hdir}/Cargo.toml").read().replace('path = "/repo"', f'path = "{wt}"')
    open(f"{hdir}/Cargo.toml", "w").write(ct)
    cfg = open(f"{hdir}/.cargo/config.toml").read().replace('../target/harness', '/tmp/mh-target')
    open(f"{hdir}/.cargo/config.toml", "w").write(cfg)
    sh("git checkout -- . ; rm -rf tests", cwd=wt)
    if patch is not None:
        rc, out = sh(f"git apply {patch}", cwd=wt)
        if rc != 0:
            return {"error": "patch does not apply: " + out[-300:]}
    results = {}
    try:
        rc, out = sh("cargo build --release 2>&1", cwd=hdir)
        if rc != 0:
            return {"error": "harness build failed: " + out[-1500:]}
        for pid in ids:
            t0 = time.time()
            rc, out = sh(f"SV_VERIF_DIR={vdir} SV_REPO={wt} RUST_BACKTRACE=0 /tmp/mh-target/release/check {pid} --tier {tier} 2>&1", cwd=vdir, timeout=3600)
            viol = [l for l in out.splitlines() if l.startswith("VIOLATION")]
            sig = [l for l in out.splitlines() if l.startswith("[sv] " + pid + " /") or l.startswith("[sv] inconclusive") or l.startswith("[sv] corpus replay")]
            results[pid] = {"exit": rc, "violation": bool(viol), "detail": (sig[:1] or [""])[0][:500], "wall_s": round(time.time() - t0, 1)}
    finally:
        sh("git checkout -- .", cwd=wt)
        sh(f"rm -rf {hdir} {vdir}")
    return results

if __name__ == "__main__" and len(sys.argv) > 1 and sys.argv[1] == "screen":
    # screen <worktree> <IDs comma separated> [mutdirs...]
    wt = sys.argv[2]
    ids = sys.argv[3].split(",")
    out = {}
    for mut in sys.argv[4:]:
        out[mut] = detect_scratch(wt, os.path.join(mut, "patch.diff"), ids)
        print(json.dumps({mut: out[mut]}, indent=1), flush=True)

if __name__ == "__main__" and len(sys.argv) > 1 and sys.argv[1] == "clean":
    # clean <worktree> <IDs comma separated> [tier]: the harness as it is now against an unpatched scratch worktree
    print(json.dumps(detect_scratch(sys.argv[2], None, sys.argv[3].split(","), sys.argv[4] if len(sys.argv) > 4 else "quick"), indent=1))
    sys.exit(0)

if __name__ == "__main__" and (len(sys.argv) < 2 or sys.argv[1] != "screen"):
    main()
