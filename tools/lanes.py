#!/usr/bin/env python3
"""Detection runs for kept seeded changes in parallel scratch lanes (never touches /repo's tree).

usage: lanes.py [-j N] [--tier quick] [--ids C01,C02] [--only-missing] [<ID>/<name> ...]

Each lane owns a detached worktree of /repo HEAD (/tmp/lane-<i>), a copy of /verif/harness whose
path dependency points at that worktree, its own target dir and a scratch verif dir (replays, py,
KNOWN_FINDINGS). For every selected change: apply patch.diff in the lane, rebuild the harness,
run the quick checks of meta.json['run_ids'] (default: the change's own property), undo.
Results go to meta.json['official'] (mode = scratch-lane) and meta.json['detected_by'].
The same binary, oracle and seeds as ./run; only the path of the tree differs.
"""
import glob, json, os, subprocess, sys, threading, time, queue, shutil

ROOT = os.path.dirname(os.path.dirname(os.path.abspath(__file__)))
ENV = dict(os.environ, CARGO_NET_OFFLINE="true", RUST_LIB_BACKTRACE="0", RUST_BACKTRACE="0")

def sh(cmd, cwd=None, timeout=7200):
    try:
        p = subprocess.run(cmd, shell=True, cwd=cwd, env=ENV, stdout=subprocess.PIPE, stderr=subprocess.STDOUT, text=True, timeout=timeout)
        return p.returncode, p.stdout
    except subprocess.TimeoutExpired as e:
        return 124, (e.stdout or b"").decode() if isinstance(e.stdout, bytes) else (e.stdout or "")

def head(path):
    return subprocess.run(f"git -C {path} log --format=%h -1", shell=True, capture_output=True, text=True).stdout.strip()

class Lane:
    def __init__(self, i):
        self.i = i
        self.wt = f"/tmp/lane-{i}"
        self.hdir = f"/tmp/lane-{i}-h"
        self.vdir = f"/tmp/lane-{i}-v"
        self.tdir = f"/tmp/lane-{i}-t"
    def setup(self):
        sh(f"git -C /repo worktree remove --force {self.wt}; rm -rf {self.wt} {self.hdir} {self.vdir}")
        rc, out = sh(f"git -C /repo worktree add --detach {self.wt} HEAD")
        assert rc == 0, out
        self.refresh()
    def refresh(self):
        sh(f"rm -rf {self.hdir} {self.vdir}; mkdir -p {self.vdir}/target; cp -r {ROOT}/harness {self.hdir}; cp {ROOT}/KNOWN_FINDINGS.txt {self.vdir}/; cp -r {ROOT}/replays {self.vdir}/replays; cp -r {ROOT}/py {self.vdir}/py; rm -f {self.vdir}/replays/*/fail-*")
        ct = open(f"{self.hdir}/Cargo.toml").read().replace('path = "/repo"', f'path = "{self.wt}"')
        open(f"{self.hdir}/Cargo.toml", "w").write(ct)
        cfg = open(f"{self.hdir}/.cargo/config.toml").read().replace('../target/harness', self.tdir)
        open(f"{self.hdir}/.cargo/config.toml", "w").write(cfg)
    def teardown(self):
        sh(f"git -C /repo worktree remove --force {self.wt}; rm -rf {self.wt} {self.hdir} {self.vdir} {self.tdir}")
    def run(self, patch, ids, tier):
        sh("git checkout -- . ; git clean -fdq -e target", cwd=self.wt)
        sh(f"rm -f {self.vdir}/replays/*/fail-*; rm -rf {self.vdir}/evidence")
        if patch:
            rc, out = sh(f"git apply {patch}", cwd=self.wt)
            if rc != 0:
                return {"error": "patch does not apply: " + out[-300:]}
        results = {}
        try:
            rc, out = sh("cargo build --release 2>&1", cwd=self.hdir)
            if rc != 0:
                return {"error": "harness build failed: " + out[-1500:]}
            for pid in ids:
                t0 = time.time()
                rc, out = sh(f"SV_VERIF_DIR={self.vdir} SV_REPO={self.wt} {self.tdir}/release/check {pid} --tier {tier} 2>&1", cwd=self.vdir, timeout=5400)
                lines = out.splitlines()
                viol = [l for l in lines if l.startswith("VIOLATION")]
                sig = [l for l in lines if l.startswith("[sv] " + pid + " /") or l.startswith("[sv] inconclusive") or l.startswith("[sv] corpus replay")]
                results[pid] = {"exit": rc, "violation": bool(viol), "detail": (sig[:1] or [""])[0][:500], "wall_s": round(time.time() - t0, 1)}
        finally:
            sh("git checkout -- .", cwd=self.wt)
        return results

def main():
    args = sys.argv[1:]
    n = 3; tier = "quick"; force_ids = None; only_missing = False; clean = False
    sel = []
    while args:
        a = args.pop(0)
        if a == "-j": n = int(args.pop(0))
        elif a == "--tier": tier = args.pop(0)
        elif a == "--ids": force_ids = args.pop(0).split(",")
        elif a == "--only-missing": only_missing = True
        elif a == "--clean": clean = True   # unpatched tree in every lane, ids = --ids (silence test under load)
        else: sel.append(a)
    q = queue.Queue()
    if clean:
        for k in range(n):
            q.put((f"clean-{k}", None, None, force_ids))
    else:
        for d in sorted(glob.glob(ROOT + "/seeded/*/*/")):
            rel = "/".join(d.rstrip("/").split("/")[-2:])
            if sel and rel not in sel and rel.split("/")[0] not in sel: continue
            mp = os.path.join(d, "meta.json")
            meta = json.load(open(mp))
            if only_missing and meta.get("official", {}).get("at_verif_commit") == head(ROOT): continue
            ids = force_ids or meta.get("run_ids", [rel.split("/")[0]])
            q.put((rel, d, mp, ids))
    lock = threading.Lock()
    vh, rh = head(ROOT), head("/repo")
    def worker(i):
        lane = Lane(i); lane.setup()
        try:
            while True:
                try: rel, d, mp, ids = q.get_nowait()
                except queue.Empty: break
                res = lane.run(os.path.join(d, "patch.diff") if d else None, ids, tier)
                with lock:
                    if "error" in res:
                        print(rel, "ERROR", res["error"], flush=True); continue
                    if mp and tier == "quick" and not force_ids:
                        meta = json.load(open(mp))
                        meta["official"] = {"mode": "scratch-lane", "at_verif_commit": vh, "at_repo_commit": rh, "results": res}
                        meta["detected_by"] = [k for k, v in res.items() if v["violation"]]
                        json.dump(meta, open(mp, "w"), indent=1)
                    print(rel, {k: ("CAUGHT" if v["violation"] else f"missed(exit {v['exit']})") + f" {v['wall_s']}s" for k, v in res.items()}, flush=True)
                    for k, v in res.items():
                        if v["violation"] or v["exit"] not in (0,): print("    ", k, v["detail"][:300], flush=True)
        finally:
            lane.teardown()
    ts = [threading.Thread(target=worker, args=(i,)) for i in range(n)]
    for t in ts: t.start()
    for t in ts: t.join()

if __name__ == "__main__":
    main()
