#!/bin/sh
# Runs every check's quick (or given) tier on the current tree and prints one line per check.
TIER="${1:-quick}"
cd "$(dirname "$0")/.."
for id in C01 C02 C03 C04 C05 C06 C07 C08 C09 C10 C11 C12 C13 C14 C15 C16 C17 C18 C19 C20; do
    RUST_BACKTRACE=0 ./run $id $TIER 2>&1 | grep -E "^\[sv\] C[0-9]+ (quick|thorough)|^VIOLATION|^\[sv\] inconclusive|^KNOWN-FINDING" | cut -c1-220
done
