#!/usr/bin/env python3
"""Confirm the deliveries of a mutation sub-agent in its worktree and keep the confirmed ones.
usage: keep_round.py <round> <ID> [<ID> ...]   (worktrees /tmp/wt<round>-<ID>, deliveries mut1..mutN)"""
import glob, json, os, shutil, sys
sys.path.insert(0, os.path.dirname(__file__))
from mutant import confirm, confirm_py
rnd = sys.argv[1]
for pid in sys.argv[2:]:
    wt = f"/tmp/wt{rnd}-{pid}"
    for mut in sorted(glob.glob(wt + "/mut*")):
        if not os.path.exists(mut + "/patch.diff"):
            continue
        if os.path.exists(mut + "/.kept"):
            continue
        r = confirm_py(wt, mut) if os.path.exists(mut + "/demo.py") else confirm(wt, mut)
        print(pid, os.path.basename(mut), "CONFIRMED" if r.get("ok") else "REJECTED", json.dumps({k: v for k, v in r.items() if k != "with_patch"}), flush=True)
        if not r.get("ok"):
            continue
        k = 1
        while os.path.exists(f"/verif/seeded/{pid}/m{k}"):
            k += 1
        dst = f"/verif/seeded/{pid}/m{k}"
        os.makedirs(dst)
        for f in ("patch.diff", "demo.rs", "demo.py", "meta.json"):
            if os.path.exists(os.path.join(mut, f)):
                shutil.copy(os.path.join(mut, f), os.path.join(dst, f))
        mp = os.path.join(dst, "meta.json")
        try:
            meta = json.load(open(mp))
        except Exception:
            meta = {"property": pid, "summary": open(mp).read() if os.path.exists(mp) else ""}
        meta["round"] = int(rnd)
        meta["confirmed"] = {k2: v for k2, v in r.items() if k2 != "with_patch"}
        json.dump(meta, open(mp, "w"), indent=1)
        open(mut + "/.kept", "w").write(dst)
        print("  kept as", dst, flush=True)
