#!/usr/bin/env python3
"""Prints the prompt given to a mutation sub-agent for one property (property text only)."""
import json, sys
pid = sys.argv[1]
wt = sys.argv[2]
n = sys.argv[3] if len(sys.argv) > 3 else "2"
props = {json.loads(l)['id']: json.loads(l) for l in open('/verif/properties.jsonl')}
p = props[pid]
print(f"""You are testing how robust a Rust library is against subtle regressions. Work ONLY inside the git worktree {wt} (a scratch checkout of the library insight-platform/Similari: multi-object tracking - SORT / VisualSORT trackers, Kalman filters, IoU / polygon clipping, NMS, a sharded threaded track store). Do not read or write anything under /verif or /repo. Build offline: prefix cargo commands with CARGO_NET_OFFLINE=true and use --offline (e.g. `cargo test --offline`). Cargo.lock is already present in the worktree.

The library is supposed to satisfy this semantic property:

  Title: {p['title']}
  Statement: {p['statement']}
  Quantified over: {p['quantifier']['text']}
  Relevant source files: {', '.join(p['anchors']['files'])}

Your task: produce {n} DIFFERENT small source changes (mutations) to the library under {wt}/src, each of which
  (a) still compiles (`cargo build --offline`) and still passes the ENTIRE existing test suite (`cargo test --offline`: 81 tests) - verify this yourself for every change,
  (b) breaks the property above for some inputs / histories / schedules, and
  (c) needs something SPECIFIC to manifest - a particular interleaving, a fault at a particular point, a multi-step sequence of operations, an unusual input, a particular configuration, or two cooperating sites that each look fine alone - rather than something ordinary use would expose at once. Prefer realistic bugs a developer could plausibly introduce in a refactoring (off-by-one, wrong comparison, swapped field, missing restore, dropped case, early return, wrong index, stale cache ...), in different parts of the relevant files. Do NOT touch test code, and do not change public API signatures.

For each change i = 1..{n} deliver, inside the worktree:
  - {wt}/mut{{i}}/patch.diff : output of `git diff` for that change alone (relative to the worktree HEAD), applicable with `git apply` from the repository root;
  - {wt}/mut{{i}}/demo.rs : a demonstration - a Rust integration test file (to be placed in tests/demo.rs of the repository; use the crate name `similari`, build with `cargo test --offline --test demo --no-default-features` ) with ONE #[test] that PASSES on the unchanged library and FAILS with your change applied. Verify both outcomes yourself.
  - {wt}/mut{{i}}/meta.json : {{"property": "{pid}", "summary": "...what was changed...", "needs": "...what it needs in order to manifest...", "commands": ["...what you ran to confirm..."]}}
Work on one change at a time: apply, verify (build, full tests, demo fails), save patch.diff, then `git checkout -- src` and verify the demo passes on the clean tree, before starting the next one. Leave the worktree clean of source modifications at the end (only the mut*/ directories and possibly tests/demo.rs removed). Note: `cargo test --offline` with default features needs Python linkage and works in this sandbox; use --no-default-features for the demo only if you prefer faster builds.

Report back a short list: for each mutation, the file/function changed, one sentence on what it breaks and what is needed to trigger it, and confirmation of (a)(b).""")
