#!/usr/bin/env python3
"""Generates /verif/MANIFEST.json from the table below (keeps it valid and consistent)."""
import json, os

ROOT = os.path.dirname(os.path.dirname(os.path.abspath(__file__)))

# id -> (category, technique, text, note, design_ref)
CHECKS = {
 "C01": ("exploration", "model-based property testing: generated tracker histories vs monitor model of ids/epochs/lengths and echo checks",
         "Generated multi-scene histories (crowded, overlapping, duplicated, appearing/disappearing, rotated boxes) for all four trackers; after every call: one record per detection in submission order (custom id and observed box echoed), scene and epoch, length = attachments, ids distinct within the call, new ids never issued before, continued ids live and of the same scene, and the stored track read back through the public accessor agrees with the record.",
         "Cases run in child processes (a dead worker thread of the library is reported, a hang is exit 2). Observed-box echo within 2 ulp.", "3/C01"),
 "C03": ("exploration", "model-based property testing + metamorphic relation over auto-waste periodicities",
         "Generated interleavings of predict / skip / wasted / idle / clear_wasted / set_auto_waste / epoch / statistics for all four trackers against a monitor model (conservation, exact expiry, wasted exactly once, idle set, place partition by walking every shard of both stores, statistics), plus the same history under periodicities 0/1/100 compared for identical observable behaviour.",
         "Which tracks clear_wasted discards is read from the wasted store right before the call. Differential comparison cut at calls whose decision margin (f64 shadow) is below 1e-4.", "3/C03"),
 "C04": ("exploration", "differential property testing: interleaved multi-scene run vs per-scene projections, up to id renaming, tie-cut by shadow margins",
         "Generated multi-scene histories whose scenes replay the same trajectories in the same image region; per scene the record sequence of the interleaved run must equal that of the projection (bit-equal boxes, epochs, lengths, voting types) under an incrementally built id bijection; no record ever joins a track of another scene.",
         "Tie-free by construction plus margin cut (a call with a decision margin below 1e-4 ends the comparison of that scene).", "3/C04"),
 "C12": ("exploration", "property-based testing with an independent f64 re-derivation of VisualSORT decisions (claims, weights, gates) from observable galleries",
         "Generated VisualSort / BatchVisualSort histories with look-alike objects, occlusions, missing and low-quality features under random option combinations; before every call the appearance claims and positional weights are re-derived from the stored galleries and filter states, and every record is checked against rules (i)-(vi) of DESIGN 3/C12.",
         "Calls with a decision closer than 1e-4 to a threshold or between two weights are counted (band) and not asserted. Own-area shares come from the inclusion-exclusion oracle; near-degenerate box sets are thinned by the generator when own-area thresholds are on (D9).", "3/C12"),
 "C13": ("exploration", "property-based testing: invariant over every update comparing gallery before/after and histories vs the monitor's full log",
         "Generated lifetimes up to 300 updates with quality patterns (increasing/decreasing/constant/around the threshold/equal values), plus crowded histories: feature bound, collect gate, sub-multiset, lowest-quality-first eviction, truthful count, newest-first-and-only-box; observed/predicted/feature histories equal the last min(length, history) log entries, also in the wasted-track conversions.",
         "The very first observation of a track is taken as given (statement does not pin it).", "3/C13"),
 "C02": ("exploration", "property-based testing + exhaustive small-matrix enumeration: SortVoting vs subset-DP optimal assignment; thorough tier adds coverage-guided fuzzing (libFuzzer bytes drive the same proptest strategies, same oracle)",
         "Level A: the voting engine on every weight matrix of shape <=3x3 over a grid straddling the threshold (exhaustive) and on random matrices up to 8x8 with shuffled arrival order; the result must be one-to-one over reported pairs, never below the gate, and its total must equal the DP optimum with 'unmatched = threshold'.",
         "Level A totals compared within rows*(2e-6 + 4e-7*max|w|). Level B: Sort / BatchSort histories; before every call the weights are recomputed in f64 from the observable state (posterior boxes, raw Kalman state via the guarded accessor) and the call's continuations must be gated pairs of live tracks with optimal total; calls with a decision within 1e-4 of a threshold are band.", "3/C02"),
 "C05": ("exploration", "differential property testing under forced worker schedules: 1 shard/free schedule vs k shards/planned interleavings of the Distances commands; arrival-order metamorphic check of the voting engine (thorough tier also by coverage-guided fuzzing: libFuzzer bytes drive the same proptest strategy, same oracle)",
         "Tie-free generated histories x shard count 1..8 x a plan per predict call that totally orders the Distances commands of all shard workers (gates on the command begin/end schedule points) plus delays; records must equal the 1-shard reference including ids (simple trackers) or up to renaming (batch trackers); wasted/idle sets equal. Sub-check voting-order: weight tables whose best assignment is unique by 2e-4 .. 5e-2 reach the Hungarian voting engine in two arrival orders - same winners, equal to the unique optimum.",
         "Hook-granularity schedule control (command begin/end), bounded gate waits; comparison cut at calls with a decision margin below 1e-4 (f64 shadow).", "3/C05"),
 "C06": ("exploration", "differential property testing under forced dispatch/voting orders: batch tracker vs simple tracker per scene; result-shape invariants; watchdog for completion",
         "Generated batch sequences over 1..5 scenes, 1..4 distance and 1..3 voting workers, caller or drainer-thread retrieval, plans ordering scene dispatch and voting jobs, delays, two shutdown modes. Per scene the batch tracker's records must equal the simple tracker's (bit-equal up to ids); each batch delivers exactly one result per scene with records echoing the detections in order and fresh distinct ids; every case must complete.",
         "Deadlock freedom for ALL schedules is not established (sampled forced orders on the real code; the explicit-state exploration mentioned in the quantifier is a different technique and is not substituted). A time-out is re-run in a fresh child before being reported.", "3/C06"),
 "C07": ("exploration", "property-based testing: generated predict/update sequences vs dense f64 textbook Kalman filter; exact cost/gate relations; thorough tier adds coverage-guided fuzzing (libFuzzer bytes drive the same proptest strategies, same oracle)",
         "Generated measurement sequences (<=300 steps, seven motion modes) compared step by step with an independent dense f64 filter: mean, covariance (symmetry, SPD by f64 Cholesky, entries), distance against the filter's own state and against the reference; stationary objects; vector filter bit-equal to point filters; cost conversions exact for every generated d incl. +-3 ulp around each chi-square entry.",
         "Tolerances >= 5x measured f32 drift inside the regular envelope (height within x10, <=3 predict-only steps in a row). Outside it only finiteness/SPD/no-panic are asserted and D10 is a listed known finding.", "3/C07"),
 "C09": ("exploration", "model-based property testing: generated store operation sequences vs sequential map model; exhaustive short sequences; thorough tier adds coverage-guided fuzzing (libFuzzer bytes drive the same proptest strategies, same oracle)",
         "Every sequence of length <=2 (quick) / <=3 (thorough) over a 39-operation alphabet x shard counts {1,2,3}, plus random sequences up to 300 operations over 1..5 shards, is applied to the real store and to a sequential model; every return value (incl. merge failures: missing destination/source, same track, failing merge callback) and the full per-shard contents are compared after every step.",
         "The model reuses the harness-owned callbacks (attribute update/merge, optimise) - they are inputs, not code under test; track/store semantics are modelled independently. Diagnostic 'seen by last optimise' fields are masked (hash-order dependent for unordered class lists).", "3/C09"),
 "C10": ("exploration", "property-based testing under forced worker schedules: generated stores/queries x command-granularity interleavings (hook gates) vs sequential definition",
         "Generated store contents and candidate batches (foreign and owned), both only_baked settings, all()/iterator, 1..4 shards; a plan totally orders all Distances commands (FIFO per shard) and the caller's own step; all interleavings enumerated for scenarios with <= 6 commands, random plans and delays beyond. The multiset of results and the number of error items must equal the sequential definition and the store must be unchanged; the query is asked a second time after stored tracks changed status through caller-side operations; a second metric type with the default post-processing is compared per pair with Track::distances.",
         "Schedules are forced at hook granularity (command begin/end, the caller's step inside the owned query), not at instruction level; gate waits are bounded and an unachieved plan only costs coverage (counted).", "3/C10"),
 "C11": ("fault_enumeration", "property-based testing + exhaustive fault injection: every callback position of every generated case fails once; pre/post state comparison and sequential track model; thorough tier adds coverage-guided fuzzing (libFuzzer bytes drive the same proptest strategies, same oracle)",
         "For each generated (tracks, operation) case a fault-free run numbers the user-callback invocations (attribute update, attribute merge, optimise per class); then every position is replayed failing, on add_observation, Track::merge, store.add, merge_external and merge_owned. Failure => state equals the pre-state in attributes, observations of every class, metric state and merge history, zero notifications, both tracks still stored; success => exactly one notification and the state of the sequential model (merge history = previous ++ source once).",
         "Harness callbacks leave half-applied changes behind before failing, so a missing restore is visible. Metric state is observed through a follow-up optimise call. Class lists without duplicates.", "3/C11"),
 "C14": ("exploration", "property-based testing: validity predicate over NMS output with independent coverage oracle; idempotence; thorough tier adds coverage-guided fuzzing (libFuzzer bytes drive the same proptest strategies, same oracle)",
         "Generated clustered/duplicated/nested/rotated lists with score modes and thresholds; the output must be references into the input, valid, filter-passing, rank-ordered, top-ranked first, no kept box covered beyond the threshold by a higher-ranked kept box, every dropped box so covered by one, and a second application is the identity.",
         "Coverage computed with oracle/geom.rs; band 2e-4 around the nms threshold and score==threshold accept either outcome.", "3/C14"),
 "C15": ("exploration", "property-based testing in child processes: inclusion-exclusion / exact grid-count oracle, permutation metamorphic relation, hang detection; duplicates class (same object twice / copy); tracker-level stored shares vs the same oracle",
         "Generated sets of 1..8 boxes (integer grid exact, axis-aligned, rotated, near-degenerate) evaluated in child processes; share vs uncovered fraction, range, free boxes = 1, order independence, completion (panic / 10 s time-out).",
         "Known finding D9 (geo 0.27 boolean ops panic / hang / wrong region) is excused only for inputs that satisfy the objective degeneracy predicate (a vertex within 1e-4 of an edge of another box); general-position inputs are never excused.", "3/C15"),
 "C17": ("exploration", "property-based testing: reference re-implementation of the counting rules, all permutations of small streams; thorough tier adds coverage-guided fuzzing (libFuzzer bytes drive the same proptest strategies, same oracle)",
         "Generated streams for TopN / BestFit / Hungarian voting checked against an f64 re-implementation written from the statement; validity under ties; order independence under random permutations and under all n! permutations of 2..5-item streams.",
         "Weights within 1e-6 relative + 3.4e-6 of the largest distance magnitude (f32 differences summed); closer weights count as ties. Metric units 1e-8..1e4, query/track ids from disjoint or shared id spaces, N up to usize::MAX.", "3/C17"),
 "C20": ("exploration", "exhaustive enumeration of constraint tables and probes vs reference lookup; thorough tier adds coverage-guided fuzzing (libFuzzer bytes drive the same proptest strategies, same oracle)",
         "Every table over <=3 configured gaps in 0..8 x 5 limits, with duplicates and insertion orders, probed at gaps 0..10 x 32 distances (each limit +-2 ulp) against 'limit of the smallest configured gap >= d, first insertion wins'; monotone in distance; builder = add_constraints. Tracker level: binding tables (every continuation admitted by the reference lookup, optimal among admitted pairs) and non-binding tables (limits 1e6) = unconstrained run, bit-equal up to ids.",
         "Table level is exhaustive for the enumerated space only; tracker level is sampled.", "3/C20"),
 "C08": ("exploration", "property-based testing: generated box pairs vs independent f64 convex-clipping oracle; metamorphic rigid motions; thorough tier adds coverage-guided fuzzing (libFuzzer bytes drive the same proptest strategies, same oracle)",
         "Generated-input search (proptest, shrinking) over constructed pair configurations against an independent f64 geometry kernel with stated tolerances, plus symmetry/range/identity/rigid-motion relations and the soundness of the too_far pre-filter. Held-on-everything-explored, not a proof.",
         "Trusts oracle/geom.rs (self-checked for symmetry per case); tolerances 1e-4 of the smaller area (+ eps64*coord^2 term for the absolute-coordinate clipper), IoU 2e-4; touching configurations three-valued.", "3/C08"),
 "C16": ("exploration", "property-based testing: exhaustive over vector lengths 0..=130, random values, scalar f64 reference and algebraic relations; thorough tier adds coverage-guided fuzzing (libFuzzer bytes drive the same proptest strategies, same oracle)",
         "Every length 0..=130 (plus 247..4099: the usual embedding sizes and their neighbours) is enumerated with random dense and sparse values, the round trip also with arbitrary finite bit patterns and through both the by-reference and by-value conversion; round trip compared bit-exactly with zero padding; distances against scalar f64 formulas on the common packed prefix; symmetry, identity, triangle inequality, cosine range/parallel/opposite/scale relations.",
         "Empty vector may pack to 0 or 8 zeros (statement does not pin it): either reading accepted consistently per case. Relative tolerance 1e-4.", "3/C16"),
 "C18": ("translation_validation", "differential property testing (Hypothesis): generated API scripts executed through the Python module built from the current tree and through the Rust API; traces compared exactly; comparison cut at calls the Rust API itself may decide either way (f64 shadow margin)",
         "Hypothesis-generated scripts (boxes with every getter/setter, clipping, nms, three Kalman filters, constraints, the four trackers incl. expiry-boundary probes, histories, batch requests/results; optional constructor arguments individually omitted) run through `similari.so` built by cargo from /repo's working tree and through a Rust driver calling the wrapped API with the documented defaults; traces must be identical (batch ids up to renaming). Failures are shrunk by Hypothesis and saved as replay.",
         "A script on which the Rust driver answers and the Python side does not return within 60 s (GIL-independent watchdog) is a violation only after it reproduced twice in fresh interpreter processes, otherwise inconclusive. The defaults table in the driver is the reference for 'documented defaults'. Tie-free tracker inputs by construction (well separated objects). Python: python3-vt (hypothesis 6.168).", "3/C18"),
 "C19": ("exploration", "property-based testing: round trips, polygon vs reference rotation, equality relation laws across the EPS boundary; thorough tier adds coverage-guided fuzzing (libFuzzer bytes drive the same proptest strategies, same oracle)",
         "Generated boxes over 1e-2..1e4: ltwh<->universal round trip within ulps, polygon vertices/area/centre/radius against the reference rotation, equality reflexive/symmetric/threshold-correct for single-coordinate perturbations in both argument orders, normalize_angle range and equivalence.",
         "Equality threshold is three-valued inside [0.9,1.1] EPS. Trusts f64 sin/cos.", "3/C19"),
}

ALL = ["C%02d" % i for i in range(1, 21)]

def main():
    checks = []
    for pid in ALL:
        if pid not in CHECKS:
            continue
        cat, tech, text, note, ref = CHECKS[pid]
        checks.append({
            "property_id": pid,
            "quick_cmd": "./run %s quick" % pid,
            "thorough_cmd": "./run %s thorough" % pid,
            "evidence_file": "/verif/evidence/%s.json" % pid,
            "replay_cmd_template": "./run %s quick --replay {path}" % pid,
            "engine": "sv-harness",
            "level_claimed": {"category": cat, "text": text, "design_ref": "DESIGN.md section " + ref},
            "level_note": note,
            "technique": tech,
        })
    na = [{"property_id": p, "reason": "check not built yet in this session (planned in DESIGN.md section 3/%s; not a limit of the technique)" % p}
          for p in ALL if p not in CHECKS]
    m = {
        "version": 1,
        "setup_cmd": "cd /verif/harness && CARGO_NET_OFFLINE=true cargo build --release",
        "hooks": {
            "guard": "--cfg similari_verif",
            "enable": "rustflags in /verif/harness/.cargo/config.toml: --cfg similari_verif (plus -C target-cpu=x86-64-v3 as in /repo/.cargo/config.toml); the harness depends on /repo by path, so every ./run rebuilds /repo's working tree with hooks on",
            "baseline_off_cmd": "cd /repo && cargo test --workspace --no-fail-fast --offline",
            "source_commits": ["64cbe0e", "838f926 (moves one guarded schedule point inside owned_track_distances together with the fix)", "ab5eaad"],
            "add_only": True,
        },
        "engines": [
            {"name": "sv-harness", "path": "/verif/harness", "serves_properties": [c["property_id"] for c in checks],
             "kind_free_text": "Rust crate: proptest 1.11 TestRunner (fixed seeds from VERIF_SEED, shrinking, JSON replay), exhaustive enumerators, independent f64 oracles"},
            {"name": "sv-fuzz", "path": "/verif/fuzz", "serves_properties": ["C02", "C05", "C07", "C08", "C09", "C11", "C14", "C16", "C17", "C19", "C20"],
             "kind_free_text": "cargo-fuzz / libFuzzer binary `props` (thorough tier only, started by ./run <ID> thorough): input bytes are the random stream of the harness's proptest strategies (PassThrough RNG, vendored proptest with one marked change), every input judged by the same oracle, failing input written as a decoded JSON replay"},
            {"name": "hypothesis-c18", "path": "/verif/py", "serves_properties": ["C18"],
             "kind_free_text": "Hypothesis 6.168 (python3-vt) script generator and Python executor; Rust side = `check C18 --child pydriver`"},
        ],
        "checks": checks,
        "not_applicable": na,
        "notes": "All checks: exit 0 held / 1 violation (+VIOLATION line) / 2 inconclusive / 3 build failure. KNOWN_FINDINGS.txt lists known and fixed findings.",
    }
    json.dump(m, open(os.path.join(ROOT, "MANIFEST.json"), "w"), indent=1)
    print("wrote MANIFEST.json with %d checks, %d not applicable" % (len(checks), len(na)))

if __name__ == "__main__":
    main()
