#!/usr/bin/env python3
"""Generates /verif/MANIFEST.json from the table below (keeps it valid and consistent)."""
import json, os

ROOT = os.path.dirname(os.path.dirname(os.path.abspath(__file__)))

# id -> (category, technique, text, note, design_ref)
CHECKS = {
 "C08": ("exploration", "property-based testing: generated box pairs vs independent f64 convex-clipping oracle; metamorphic rigid motions",
         "Generated-input search (proptest, shrinking) over constructed pair configurations against an independent f64 geometry kernel with stated tolerances, plus symmetry/range/identity/rigid-motion relations and the soundness of the too_far pre-filter. Held-on-everything-explored, not a proof.",
         "Trusts oracle/geom.rs (self-checked for symmetry per case); tolerances 1e-4 of the smaller area (+ eps64*coord^2 term for the absolute-coordinate clipper), IoU 2e-4; touching configurations three-valued.", "3/C08"),
 "C16": ("exploration", "property-based testing: exhaustive over vector lengths 0..=130, random values, scalar f64 reference and algebraic relations",
         "Every length 0..=130 is enumerated with random values; round trip compared bit-exactly with zero padding; distances against scalar f64 formulas on the common packed prefix; symmetry, identity, triangle inequality, cosine range/parallel/opposite/scale relations.",
         "Empty vector may pack to 0 or 8 zeros (statement does not pin it): either reading accepted consistently per case. Relative tolerance 1e-4.", "3/C16"),
 "C19": ("exploration", "property-based testing: round trips, polygon vs reference rotation, equality relation laws across the EPS boundary",
         "Generated boxes over 1e-2..1e4: ltwh<->universal round trip within ulps, polygon vertices/area/centre/radius against the reference rotation, equality reflexive/symmetric/threshold-correct for single-coordinate perturbations in both argument orders, normalize_angle range and equivalence.",
         "Equality threshold is three-valued inside [0.9,1.1] EPS. Trusts f64 sin/cos.", "3/C19"),
}

ALL = ["C%02d" % i for i in range(1, 21)]

def main():
    checks = []
    for pid in ALL:
        if pid not in CHECKS:
            continue
        cat, tech, text, note, ref = CHECKS[pid]
        checks.append({
            "property_id": pid,
            "quick_cmd": "./run %s quick" % pid,
            "thorough_cmd": "./run %s thorough" % pid,
            "evidence_file": "/verif/evidence/%s.json" % pid,
            "replay_cmd_template": "./run %s quick --replay {path}" % pid,
            "engine": "sv-harness",
            "level_claimed": {"category": cat, "text": text, "design_ref": "DESIGN.md section " + ref},
            "level_note": note,
            "technique": tech,
        })
    na = [{"property_id": p, "reason": "check not built yet in this session (planned in DESIGN.md section 3/%s; not a limit of the technique)" % p}
          for p in ALL if p not in CHECKS]
    m = {
        "version": 1,
        "setup_cmd": "cd /verif/harness && CARGO_NET_OFFLINE=true cargo build --release",
        "hooks": {
            "guard": "--cfg similari_verif",
            "enable": "rustflags in /verif/harness/.cargo/config.toml: --cfg similari_verif (plus -C target-cpu=x86-64-v3 as in /repo/.cargo/config.toml); the harness depends on /repo by path, so every ./run rebuilds /repo's working tree with hooks on",
            "baseline_off_cmd": "cd /repo && cargo test --workspace --no-fail-fast --offline",
            "source_commits": ["64cbe0e"],
            "add_only": True,
        },
        "engines": [
            {"name": "sv-harness", "path": "/verif/harness", "serves_properties": [c["property_id"] for c in checks],
             "kind_free_text": "Rust crate: proptest 1.11 TestRunner (fixed seeds from VERIF_SEED, shrinking, JSON replay), exhaustive enumerators, independent f64 oracles"},
        ],
        "checks": checks,
        "not_applicable": na,
        "notes": "All checks: exit 0 held / 1 violation (+VIOLATION line) / 2 inconclusive / 3 build failure. KNOWN_FINDINGS.txt lists known and fixed findings.",
    }
    json.dump(m, open(os.path.join(ROOT, "MANIFEST.json"), "w"), indent=1)
    print("wrote MANIFEST.json with %d checks, %d not applicable" % (len(checks), len(na)))

if __name__ == "__main__":
    main()
