//! One libFuzzer binary for every fuzzable sub-check: SV_FUZZ_TARGET=<property>.<sub-check> selects
//! the proptest strategy the bytes are fed to and the oracle that judges the decoded case
//! (harness/src/fuzz.rs).
#![no_main]
use libfuzzer_sys::fuzz_target;

fuzz_target!(|data: &[u8]| {
    sv::fuzz::one_input(data);
});
